#!/usr/bin/env python3
"""Round 4: assemble /verif/seeded/<ID>-C/ from the sub-agents' deliverables in /tmp/wt4-out/<ID> and my own
confirmation runs (/tmp/wt4-out/suite.results, /tmp/wt4-out/confirm_dist.log). Only names listed in T are written."""
import json, os, shutil, glob, re, sys
OUT='/verif/seeded'
HEAD=os.popen('git -C /repo rev-parse --short HEAD').read().strip()
T = json.load(open('/verif/tools/seeded4_table.json'))
suite=open('/tmp/wt4-out/suite.results').read() if os.path.exists('/tmp/wt4-out/suite.results') else ''
dist=open('/tmp/wt4-out/confirm_dist.log').read() if os.path.exists('/tmp/wt4-out/confirm_dist.log') else ''
def main():
    for name,e in T.items():
        pid=name.split('-')[0]
        src=f'/tmp/wt4-out/{pid}'
        d=f'{OUT}/{name}'
        if not os.path.exists(f'{src}/patch.diff'):
            print('no source for',name,'(kept as is)'); continue
        os.makedirs(d, exist_ok=True)
        shutil.copy(f'{src}/patch.diff', f'{d}/patch.diff')
        demos=[]
        for f in glob.glob(f'{src}/demo_*.rs'):
            shutil.copy(f, d); demos.append(os.path.basename(f))
        if os.path.isdir(f'{src}/demo'):
            dst=f'{d}/demo'
            if os.path.exists(dst): shutil.rmtree(dst)
            shutil.copytree(f'{src}/demo', dst, ignore=shutil.ignore_patterns('target','wt','Cargo.lock.bak'))
            demos.append('demo/')
        if os.path.exists(f'{src}/notes.md'): shutil.copy(f'{src}/notes.md', f'{d}/notes.md')
        conf={}
        engine = not os.path.isdir(f'{src}/demo')
        txt = suite if engine else dist
        m=re.search(r'confirm %s(?:-C)?: demo on unchanged rc=(\d+).*demo on changed rc=(\d+)'%pid,txt)
        if m: conf['demo_on_unchanged']='pass' if m.group(1)=='0' else 'FAIL'; conf['demo_on_changed']='fail' if m.group(2)!='0' else 'PASS'
        if engine:
            # verdict of the pinned suite from this change's own nextest log (same parser as confirm4.sh)
            lg=f'{src}/confirm_suite.log'
            if os.path.exists(lg):
                stable=set(json.load(open('/root/.vp/BASELINE.json'))['stable_pass'])
                bad=set(); summary=''
                for l in open(lg, errors='replace'):
                    m2=re.search(r'^\s*(FAIL|TIMEOUT|SIGABRT|SIGSEGV|SIGKILL|ABORT|LEAK-FAIL)\s*\[.*?\]\s*(?:\(.*?\)\s*)?(\S+)\s+(\S+)', l)
                    if m2: bad.add(m2.group(2)+'::'+m2.group(3))
                    if 'Summary' in l: summary=l.strip()
                failed=sorted(stable & bad)
                if summary:
                    conf['pinned_suite_with_change']="stable_pass=%d failed_stable=%s not_passing_total=%d | %s"%(len(stable),failed,len(bad),summary)
                rr=[]
                for t in failed:
                    b,n=t.split('::')[-2],t.split('::')[-1]
                    ks=[int(k) for k in re.findall(r'rerun-alone: %s %s passed (\d)/3'%(re.escape(b),re.escape(n)),suite)]
                    if ks: rr.append('%s %s passed %d/3'%(b,n,min(ks)))
                if rr: conf['failed_stable_tests_rerun_alone_with_change']=rr
        else:
            conf['notes']="the pinned suite does not build these crates (distributed-walrus/ and octopii/ are outside the root crate): compile check = the changed file compiles in the dsim/osim harness build (eval run) and in the demo crate"
        det=e.get('detected_by',[])
        meta={'name':name,'property':e['property'],'change':e['change'],'needs_to_manifest':e['needs'],'demonstration':demos,
              'confirmed_by_me':conf,
              'detected_by':[{'check':c,'tier':t,'seed':1,'rule':r} for c,t,r in det],
              'status':'detected' if det else 'missed','remarks':e.get('remarks',''),
              'what_i_ran': e.get('what_i_ran') or ([
                ("tools/confirm4.sh %s  (scratch worktree of /repo at %s: demonstration copied into tests/, `cargo test --offline --test <demo>` on the unchanged code, then with patch.diff applied; then the pinned suite with the change: `cargo nextest run --workspace --no-fail-fast --tool-config-file pb:/w/lib/nextest.toml --profile pb --test-threads 8 --offline`, judged against stable_pass of /root/.vp/BASELINE.json; stable tests that failed in the loaded parallel run re-run alone three times with the change applied)"%(pid,HEAD)) if engine else
                ("tools/confirm_demo_crate.sh %s  (demonstration crate built and run offline against the sub-agent's worktree at %s: `cargo test --offline` on the unchanged sources, then with patch.diff applied; the crate #[path]-includes the real changed file)"%(pid,HEAD)),
                "tools/ns_eval.sh <slot> seeded/%s/patch.diff quick %s  (registered quick commands, VERIF_SEED=1, patch applied to a clone of /repo at %s in a private mount namespace): %s"%(name,' '.join(sorted({c for c,_,_ in det}) or [e['property']]),HEAD, 'exit 1 with a VIOLATION line; the same check exits 0 on the unchanged tree' if det else 'exit 0 (not reported)')])}
        json.dump(meta,open(f'{d}/meta.json','w'),indent=1)
    print(len(T),'entries processed')
main()
