#!/bin/bash
# ns_eval.sh <slot> <patch.diff> <quick|thorough|secs> <ID>...
#   Exploratory, parallelisable evaluation of a seeded change WITHOUT touching /repo or /verif: a private mount
#   namespace in which /repo is a scratch git worktree (HEAD of the real /repo) and /verif a scratch copy of the
#   committed+working /verif (with its build cache). Inside, eval_mutant.sh runs as usual. Final results are
#   re-established with `./check selftest sensitivity`, which applies the patch to /repo itself.
slot="$1"; patch="$(readlink -f "$2")"; shift 2
base=/tmp/ev/$slot
mkdir -p $base
head=$(git -C /repo rev-parse HEAD)
# a standalone clone (its own .git directory: a linked worktree's .git file would point into the hidden real /repo)
if [ ! -d $base/repo/.git ]; then rm -rf $base/repo; git clone -q /repo $base/repo || exit 2; fi
git -C $base/repo checkout -q -- . ; git -C $base/repo fetch -q origin; git -C $base/repo checkout -q --detach $head || exit 2
mkdir -p $base/verif
rsync -a --delete --exclude 'target/mutant-out' --exclude 'target/sweep-out' --exclude 'target/selftest' --exclude 'target/load-out' /verif/ $base/verif/
cp "$patch" $base/patch.diff
unshare -m bash -c "mount --bind $base/repo /repo && mount --bind $base/verif /verif && cd /verif && ./eval_mutant.sh $base/patch.diff $*"
