#!/bin/bash
# confirm_demo_crate.sh <ID>   round-4 distributed changes: demo crate (under /tmp/wt4-out/<ID>/demo, #[path]-including the
# real files of /tmp/wt4/<ID>) passes on the unchanged sources and fails with patch.diff applied.
id="$1"; wt=/tmp/wt4/$id; out=/tmp/wt4-out/$id
export CARGO_TARGET_DIR=/tmp/wt4-target/$id CARGO_NET_OFFLINE=true
cd $wt || exit 2
git checkout -q -- . ; git checkout -q --detach $(git -C /repo rev-parse HEAD)
( cd $out/demo && timeout 1500 cargo test --offline >$out/confirm_unchanged.log 2>&1 ); r0=$?
git apply $out/patch.diff || { echo "patch does not apply"; exit 2; }
( cd $out/demo && timeout 1500 cargo test --offline >$out/confirm_changed.log 2>&1 ); r1=$?
git checkout -q -- .
echo "confirm $id: demo on unchanged rc=$r0 (want 0), demo on changed rc=$r1 (want !=0)"
