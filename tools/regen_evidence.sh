#!/bin/bash
# regen_evidence.sh [tier] [ids...]  - runs the registered commands one after the other on /repo as it is and prints exit status and wall time
cd "$(dirname "$0")/.."
tier="${1:-quick}"; shift
ids="${*:-C01 C02 C03 C04 C05 C06 C07 C08 C09 C10 C11 C12 C13 C15 C16 C17 C18 C20 C21 C22 C23 C24}"
for id in $ids; do
  t0=$(date +%s); out=$(VERIF_SEED=1 ./check $id $tier 2>&1); code=$?
  echo "$id $tier exit=$code $(( $(date +%s) - t0 ))s | $(echo "$out" | grep -E '^(wsim|dsim|osim): [0-9]' | head -1 | cut -c1-150)"
  echo "$out" | grep -E "^VIOLATION|harness-error|NONDET|too few" | head -3
done
