#!/usr/bin/env python3
"""Assemble /verif/seeded/<name>/ from the sub-agents' deliverables in /tmp/wt-out and my own confirmation runs.
One-off helper (kept for the record); the table below is the authoritative summary of each kept change."""
import json, os, shutil, glob, re, sys
OUT='/verif/seeded'
T = {
# name: (property, what, needs, detected_by [(check,tier,rule)], note)
'C01-A': ('C01', "Block::read rejects an entry that ends exactly on its block's last byte (`end >= limit`)", "stored sizes (256+payload) in one block summing to exactly the block size; read_next reaches that entry", [('C01','quick','c01.*')], ''),
'C01-B': ('C01', "AtLeastOnce cursor-based batch reads release the topic lock between planning and commit (hold_lock_during_io loses the checkpoint clause)", "AtLeastOnce, consuming batch reads, another consumer (or a block seal) on the same topic between plan and commit", [('C05','quick','c05.*')], 'written against C01, manifests only under concurrency: caught by the concurrency check'),
'C02-A': ('C02', "read_next hoists should_persist() out of `if checkpoint`: in AtLeastOnce a peek uses up a slot of the persist-every-N budget", "AtLeastOnce{N>=2}, peeks interleaved with consuming read_next, then a reopen", [('C02','quick','c02.twin_differs')], 'missed until the differential (twin-run) oracle was added'),
'C02-B': ('C02', "batch read planning marks a block consumed for `checkpoint` instead of for cursor-based reads: an offset-addressed read with checkpoint=true releases an unconsumed block", "offset read with checkpoint=true whose scan reaches the end of a sealed block", [('C02','quick','c02.reclaim_marked')], ''),
'C03-A': ('C03', "first-entry peek guard `<=` -> `<`: a budget below 256 makes no progress when exactly one header remains in the block", "sealed block ending in an empty-payload entry, cursor on it, budget < 256", [('C03','quick','c03.no_progress')], ''),
'C03-B': ('C03', "byte total restarted per planned range: a read running from a sealed block into the tail returns up to twice the budget", "read starts in the last sealed block, continues into the active block, tail holds more than the remaining budget", [('C03','quick','c03.budget')], ''),
'C04-A': ('C04', "io_uring batch rollback zeroes only the first planned header per file", "FD backend, failed/short completion on an entry other than the first, later append of the first entry's size, restart", [('C04','quick','c04.c01_foreign / c04.c01_drain_mismatch')], 'missed until (a) failed batches were followed by retries in the fault variants and (b) the listed failed-batch finding was narrowed with batch_switched_block / failure_class'),
'C04-B': ('C04', "alloc_block resets data.offset before the fallible file creation", "append needing a new block exactly at file exhaustion, I/O failure of that file creation, a later successful allocation", [('C04','quick','c04.*')], ''),
'C05-A': ('C05', "read_next tail re-check asks 'has the block I read been sealed' instead of 'has any block been sealed'", "consumer on the active block at least one entry behind while the writer rotates", [('C05','quick','c05.*')], ''),
'C05-B': ('C05', "hold_lock_during_io: `||` -> `&&` (AtLeastOnce batch consumers commit stale plans)", "AtLeastOnce, two or more threads doing checkpointing batch reads on one topic", [('C05','quick','c05.*')], ''),
'C06-A': ('C06', "recovery: `next_block_start <= MAX_FILE_SIZE` -> `<` (multi-unit block ending exactly at the file end is mis-sized)", "entry larger than one block whose block lands on the last units of a file, clean restart", [('C06','quick','c06.*')], ''),
'C06-B': ('C06', "now_millis_str_after ignores the directory floor when the clock is past the last name generated in this process", "two restarts with the wall clock set back in between, append in the second run", [('C06','quick','c06.*')], ''),
'C07-A': ('C07', "Writer::write computes next_block_start before switching blocks (stale end offset in the first header of the new block)", "single append that switches blocks with an entry > 1 block, or a switch across a file rollover; restart", [('C07','quick','c07.*'),('C06','quick','c06.*')], ''),
# C07-B (recovery scan guard weakened; made the mmap backend read a header past the end of the mapping and panic) was dropped for the same reason as C11-B: after 5105f63/0b669dd that read yields zeros and recovery simply stops there
'C08-A': ('C08', "io_uring ring capped at 1024 slots and flushed when full: a batch of >1024 entries is handed to the kernel in two steps", "FD backend, batch of 1025-2000 entries, process killed between the two submissions", [('C08','quick','c08.partial_batch (act=crash)')], ''),
'C08-B': ('C08', "batches of 2-7 entries bypass io_uring on the FD backend (one pwrite per entry)", "FD backend, batch of 2-7 entries, process killed between two of the writes", [('C08','quick','c08.partial_batch (backend=fd, act=crash)')], ''),
'C09-A': ('C09', "read_next steps to the next block as soon as it returns the last entry of a sealed block; the persisted cursor is (new block index, old block's end offset)", "topic > 1 block, read_next, last persisted read before the crash returned the last entry of a sealed block", [('C09','quick','c09.*'),('C06','quick','c06.*')], ''),
'C09-B': ('C09', "recovery does not count a torn-first-entry block's id (later blocks are renumbered); tail-form cursors name blocks by id", "a crash that tears the first store of a block handed out before the consumer's active block (needs a slow appender thread), consumer with a tail-form cursor, restart", [('C09','quick','c09.strict_redelivery')], 'missed until C09 got multi-threaded rotation-race workloads (slow-thread + torn-store faults) and a post-crash working incarnation; resume positions are now judged at every restart boundary'),
'C10-A': ('C10', "after a batch only the file of the last planned block is flushed", "SyncEach, batch spanning two WAL files, old file not O_SYNC (mmap), power loss after the acknowledgement", [('C10','quick','c10.*')], ''),
'C10-B': ('C10', "WalIndex::persist syncs the directory only when the rename created the entry", "StrictlyAtOnce consuming read other than the first, power loss before an unrelated directory sync", [('C10','quick','c10.*')], ''),
'C11-A': ('C11', "recovery drops the `next_block_start > block_offset` condition: a damaged field gives span 0 and the scan never advances", "next_block_start of a block's first header damaged to a value <= the block's offset", [('C11','quick','c11.nonterm / c11.hang')], ''),
# C11-B (laxer bound in Block::read; needed an mmap read past EOF to panic) was dropped: since the repairs 5105f63/0b669dd a read past the end of the mapping yields zeros, its demonstration passes with the change applied, so it no longer breaks C11
'C12-A': ('C12', "batch read planning marks every sealed block it plans to its end as consumed", "peek / capped read reaching the end of a sealed block that is the last unconsumed block of a full file, reclaimer pass, reopen", [('C12','quick','c12.removed_unconsumed'),('C02','quick','c02.reclaim_marked (marked_unconsumed>0)')], 'C02 sees it only since the listed peek finding was narrowed with marked_unconsumed'),
'C12-B': ('C12', "get_next_available_block no longer counts a new topic's first block in its file's total", "file in which a topic was created, fully allocated, all but that many blocks consumed, reclaimer pass", [('C12','quick','c12.removed_unconsumed')], ''),
'C13-A': ('C13', "fallback directory hash taken over the sanitized key", "two keys made of disallowed characters only, same character count", [('C13','quick','c13.differs_from_solo')], 'missed until such key pairs were added to the instance specifications'),
'C13-B': ('C13', "WALRUS_DATA_DIR latched in a OnceLock", "data dir chosen through the environment variable and changed between two constructions in one process", [('C13','quick','c13.differs_from_solo')], 'missed until a third of the instances were opened through the environment variable and the *_for_key constructors'),
'C15-A': ('C15', "batch_append_for_topic bumps the entry count before batch_write can fail", "a batch rejected inside batch_write (concurrent batch: WouldBlock) or failing on I/O", [('C04','quick','c04.c15_count')], 'not seen by C15 (its histories have no failing batch_write); the count rule is evaluated in the fault and concurrency profiles of C04, which report it'),
'C15-B': ('C15', "recovery tallies entries_in_block after the block-limit break", "block filled to its last byte, restart, durable cursor not past that block", [('C15','quick','c15.count'),('C06','quick','c06.*')], ''),
'C16-A': ('C16', "io_uring batch path writes next_block_start = offset + DEFAULT_BLOCK_SIZE", "FD backend, batch containing an entry larger than one block, restart", [('C16','quick','c16.diff')], ''),
'C16-B': ('C16', "fallback condition to positional writes tests ErrorKind::Unsupported instead of the 'io_uring init failed' message", "FD backend, io_uring cannot be set up", [('C16','quick','c16.diff')], 'missed until io_uring set-up failure (buggify uring_init_fail) was enabled in the sequential plans'),
'C17-A': ('C17', "shutdown flush of the clean/dirty markers moved from Drop for Walrus into Drop for TopicCleanTracker", "second marker change while the persister thread is writing the first, instance dropped and reopened at once", [('C17','quick','c17.*')], ''),
'C17-B': ('C17', "persist_updates skips records older than the stored generation + hydrate does not load clean records", "append, mark clean, restart, append, clean shutdown, reopen", [('C17','quick','c17.*')], ''),
'C18-A': ('C18', "duplicate CreateTopic rewrites the leader of segment 1 (entry().or_insert_with refactor)", "duplicate CreateTopic whose initial_leader differs", [('C18','quick','c18.*')], ''),
'C18-B': ('C18', "rollover to an unregistered node is refused after the seal writes were applied", "rollover whose new leader has no UpsertNode while another node has", [('C18','quick','c18.*')], ''),
'C20-A': ('C20', "Metadata caches its last snapshot bytes; the successful RolloverTopic arm returns before the cache is cleared", "snapshot, then only rollovers, then snapshot again on the same instance", [('C20','quick','c20.snapshot_transfer_differs / c20.restore_differs')], 'missed until C20 built several snapshots per history and observed state through the read accessors instead of snapshot()'),
'C20-B': ('C20', "build_snapshot takes the application bytes before the adapter's read lock", "snapshot build overlapping an apply batch", [('C20','quick','c20.snapshot_transfer_differs')], 'missed until snapshot builds raced with apply batches (stream of entries that is not always ready, real executor)'),
'C21-A': ('C21', "WalLogStore::append skips the WAL record of an entry the in-memory log already holds", "a WAL write that fails in the middle of an append, the same entries appended again on the same store, restart", [('C21','quick','c21.log_store_state')], 'missed until C21 injected a full disk (RLIMIT_FSIZE) around an append followed by a retry - which first exposed, on the unchanged tree, that the vendored engine copy acknowledged appends it could not store (fixed: b825b53)'),
'C21-B': ('C21', "load_peer_addr_records keeps the first record per peer (entry().or_insert)", "a peer recorded with two addresses, restart", [('C21','quick','c21.peer_records')], 'missed until the peer address book was exercised through the real functions of node.rs (cut out by build.rs)'),
'C22-A': ('C22', "read_one_for_topic tests 'sealed?' against live metadata after the read instead of the state read before it", "GET through a non-owner node; the filling PUT and the rollover land between the empty read and the check", [('C22','quick','c22.*')], ''),
'C22-B': ('C22', "maybe_rollover proposes sealed_segment_entry_count = limit instead of the tracked count", "the rollover proposal of the PUT that reaches the limit fails, the next PUT overshoots", [], 'MISSED: the symptom (sealed count below the number of entries written, entry never delivered) carries exactly the fingerprint of the listed C22 finding (count captured while appends were still accepted), so it is printed as KNOWN-FINDING; telling the two apart needs the count the node computed, which only a hook on that very expression would give'),
'C23-A': ('C23', "forward_append refreshes the leases after the rollover check instead of before the write", "old owner applies the rollover after its own refresh; an append with the old key arrives within the lease tick", [('C23','quick','c23.write_after_seal_applied')], ''),
'C23-B': ('C23', "Storage::update_leases keeps the old leases when the expected set is empty", "the sealing rollover leaves the node owning nothing", [('C23','quick','c23.write_after_seal_applied (lease_check=lease_kept_by_install)')], 'reported (not suppressed) thanks to the lease provenance facts'),
'C24-A': ('C24', "oversized-frame drain uses read() and subtracts the bytes requested, not received", "oversized frame whose body arrives in pieces", [('C24','quick','c24.*')], 'needed AsyncReadExt::read (with seeded short reads) in the tokio shim to compile'),
'C24-B': ('C24', "logged command line cut at byte 256", "command line > 256 bytes with a multi-byte character across byte 256", [('C24','quick','any.panic / c24.missing_response')], 'missed until long multi-byte payloads were generated and a panicking task ended alone in the executor'),
}
def main():
    os.makedirs(OUT, exist_ok=True)
    for name,(prop,what,needs,det,note) in T.items():
        pid,v=name.split('-')
        src=f'/tmp/wt-out/{pid}/{v}'
        d=f'{OUT}/{name}'
        os.makedirs(d, exist_ok=True)
        shutil.copy(f'{src}/patch.diff', f'{d}/patch.diff')
        demos=[]
        for f in glob.glob(f'{src}/*.rs')+glob.glob(f'{src}/scenario.md'):
            shutil.copy(f, d); demos.append(os.path.basename(f))
        for sub in ('demo','model'):
            if os.path.isdir(f'{src}/{sub}'):
                dst=f'{d}/{sub}'
                if os.path.exists(dst): shutil.rmtree(dst)
                shutil.copytree(f'{src}/{sub}', dst, ignore=shutil.ignore_patterns('target','wt'))
                demos.append(sub+'/')
        if os.path.exists(f'{src}/notes.md'): shutil.copy(f'{src}/notes.md', f'{d}/notes.md')
        conf={}
        cf=f'/tmp/ev/confirm_{pid}{v}.out'
        if os.path.exists(cf):
            txt=open(cf).read()
            m=re.search(r'demo on unchanged rc=(\d+).*demo on changed rc=(\d+)',txt)
            if m: conf['demo_on_unchanged']='pass' if m.group(1)=='0' else 'FAIL'; conf['demo_on_changed']='fail' if m.group(2)!='0' else 'PASS'
            m=re.search(r'suite: (.*)',txt)
            if m: conf['pinned_suite_with_change']=m.group(1)
            rr=re.findall(r'rerun-alone: (.*)',txt)
            if rr: conf['failed_stable_tests_rerun_alone_with_change']=sorted(set(rr))
        extra=f'/tmp/ev/confirm_{pid}{v}.extra'
        if os.path.exists(extra): conf['notes']=open(extra).read().strip()
        meta={'name':name,'property':prop,'change':what,'needs_to_manifest':needs,'demonstration':demos,
              'confirmed_by_me':conf,
              'detected_by':[{'check':c,'tier':t,'seed':1,'rule':r} for c,t,r in det],
              'status':'detected' if det else 'missed','remarks':note}
        old=f'{d}/meta.json'
        if os.path.exists(old):
            try:
                o=json.load(open(old))
                if 'what_i_ran' in o: meta['what_i_ran']=o['what_i_ran']
            except Exception: pass
        json.dump(meta,open(f'{d}/meta.json','w'),indent=1)
    print(len(T),'seeded changes written')
main()
