#!/bin/bash
# ns_queue.sh <nslots> <queue-file>   each line: <name> <patch> <mode> <IDs...>; results in /tmp/ev/results/<name>.log
n="$1"; q="$2"
run_slot() { local s=$1; while true; do
    line=$(flock /tmp/ev/q.lock bash -c "head -1 $q.work; sed -i 1d $q.work"); [ -z "$line" ] && break
    set -- $line; name=$1; patch=$2; shift 2
    /verif/tools/ns_eval.sh s$s $patch "$@" > /tmp/ev/results/$name.log 2>&1
    echo "done $name: $(grep '^== ' /tmp/ev/results/$name.log | cut -c1-60 | tr '\n' ' ')"
  done; }
cp $q $q.work; touch /tmp/ev/q.lock
for s in $(seq 1 $n); do run_slot $s & done; wait
