#!/bin/bash
# confirm4.sh <ID> [skip-suite]   (round 4: one change per property, /tmp/wt4*)
#   re-checks a sub-agent's seeded change in its scratch worktree: demo passes on the unchanged code, fails with the
#   change, and the pinned suite (stable_pass of /root/.vp/BASELINE.json) still passes with the change.
id="$1"; skip="${2:-}"
wt=/tmp/wt4/$id; tgt=/tmp/wt4-target/$id; out=/tmp/wt4-out/$id
export CARGO_TARGET_DIR=$tgt CARGO_NET_OFFLINE=true TMPDIR=/tmp/wt4-tmp/$id
mkdir -p $TMPDIR
cd $wt || exit 2
git checkout -q -- . ; git checkout -q --detach $(git -C /repo rev-parse HEAD); git clean -fdq tests/ 2>/dev/null
demos=$(ls $out/demo_*.rs 2>/dev/null)
[ -n "$demos" ] || { echo "no demo .rs in $out"; exit 2; }
names=""
for d in $demos; do cp $d tests/; names="$names $(basename $d .rs)"; done
rm -rf wal_files
run_demo() { local rc=0; for n in $names; do timeout 1500 cargo test --offline --test $n -- --test-threads 1 >$out/confirm_$1_$n.log 2>&1 || rc=1; done; return $rc; }
touch src/lib.rs
run_demo unchanged; r0=$?
git apply $out/patch.diff || { echo "patch does not apply"; exit 2; }
rm -rf wal_files
touch src/lib.rs
run_demo changed; r1=$?
echo "confirm $id-C: demo on unchanged rc=$r0 (want 0), demo on changed rc=$r1 (want 1)"
if [ -z "$skip" ]; then
  for n in $names; do rm -f tests/$n.rs; done
  rm -rf wal_files
  timeout 2400 cargo nextest run --workspace --no-fail-fast --tool-config-file pb:/w/lib/nextest.toml --profile pb --test-threads 8 --offline >$out/confirm_suite.log 2>&1
  python3 - "$out/confirm_suite.log" <<'PY'
import sys,json,re
stable=set(json.load(open('/root/.vp/BASELINE.json'))['stable_pass'])
bad=set(); summary=''
for l in open(sys.argv[1], errors='replace'):
    m=re.search(r'^\s*(FAIL|TIMEOUT|SIGABRT|SIGSEGV|SIGKILL|ABORT|LEAK-FAIL)\s*\[.*?\]\s*(?:\(.*?\)\s*)?(\S+)\s+(\S+)', l)
    if m: bad.add(m.group(2)+'::'+m.group(3))
    if 'Summary' in l: summary=l.strip()
failed=sorted(stable & bad)
print("suite: stable_pass=%d failed_stable=%s not_passing_total=%d | %s"%(len(stable),failed,len(bad),summary))
PY
  # a stable test that failed in the loaded full run is re-run alone (change still applied), three times
  for t in $(python3 - "$out/confirm_suite.log" <<'PY2'
import sys,json,re
stable=set(json.load(open('/root/.vp/BASELINE.json'))['stable_pass'])
for l in open(sys.argv[1], errors='replace'):
    m=re.search(r'^\s*(FAIL|TIMEOUT|SIGABRT|SIGSEGV|SIGKILL|ABORT|LEAK-FAIL)\s*\[.*?\]\s*(?:\(.*?\)\s*)?(\S+)\s+(\S+)', l)
    if m and (m.group(2)+'::'+m.group(3)) in stable: print(m.group(2).split('::')[-1]+':'+m.group(3))
PY2
  ); do
    bin=${t%%:*}; name=${t#*:}; ok=0
    for k in 1 2 3; do rm -rf wal_files; timeout 900 cargo nextest run --offline --tool-config-file pb:/w/lib/nextest.toml --profile pb --test $bin -E "test(=$name)" >/dev/null 2>&1 && ok=$((ok+1)); done
    echo "rerun-alone: $bin $name passed $ok/3"
  done
fi
git checkout -q -- . ; git clean -fdq tests/ 2>/dev/null; rm -rf wal_files $TMPDIR
