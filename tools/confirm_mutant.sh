#!/bin/bash
# confirm_mutant.sh <ID> <A|B> [skip-suite]
#   re-checks a sub-agent's seeded change in its scratch worktree: demo passes on the unchanged code, fails with the
#   change, and the pinned suite (stable_pass of /root/.vp/BASELINE.json) still passes with the change.
id="$1"; v="$2"; skip="${3:-}"
wt=/tmp/wt/$id; tgt=/tmp/wt-target/$id; out=/tmp/wt-out/$id/$v
export CARGO_TARGET_DIR=$tgt CARGO_NET_OFFLINE=true TMPDIR=/tmp/wt-tmp/$id-$v
mkdir -p $TMPDIR
cd $wt || exit 2
git checkout -q -- . ; git checkout -q --detach $(git -C /repo rev-parse HEAD); git clean -fdq tests/ 2>/dev/null
demos=$(ls $out/*.rs 2>/dev/null)
[ -n "$demos" ] || { echo "no demo .rs in $out"; exit 2; }
names=""
for d in $demos; do cp $d tests/; names="$names $(basename $d .rs)"; done
rm -rf wal_files
run_demo() { local rc=0; for n in $names; do timeout 1500 cargo test --offline --test $n -- --test-threads 1 >$out/confirm_$1_$n.log 2>&1 || rc=1; done; return $rc; }
touch src/lib.rs
run_demo unchanged; r0=$?
git apply $out/patch.diff || { echo "patch does not apply"; exit 2; }
rm -rf wal_files
touch src/lib.rs
run_demo changed; r1=$?
echo "confirm $id/$v: demo on unchanged rc=$r0 (want 0), demo on changed rc=$r1 (want 1)"
if [ -z "$skip" ]; then
  for n in $names; do rm -f tests/$n.rs; done
  rm -rf wal_files
  timeout 2400 cargo nextest run --workspace --no-fail-fast --tool-config-file pb:/w/lib/nextest.toml --profile pb --test-threads 8 --offline >$out/confirm_suite.log 2>&1
  python3 - "$tgt/nextest/pb/junit.xml" <<'PY'
import sys,json,xml.etree.ElementTree as ET
stable=set(json.load(open('/root/.vp/BASELINE.json'))['stable_pass'])
t=ET.parse(sys.argv[1]); res={}
for ts in t.getroot().iter('testsuite'):
    for tc in ts.iter('testcase'):
        name=ts.get('name')+'::'+tc.get('name')
        ok = tc.find('failure') is None and tc.find('error') is None
        res[name]=ok
missing=[s for s in stable if s not in res]
failed=[s for s in stable if s in res and not res[s]]
print("suite: stable_pass=%d ran=%d failed=%s missing=%d %s"%(len(stable),len(res),failed,len(missing),missing[:3]))
PY
fi
git checkout -q -- . ; git clean -fdq tests/ 2>/dev/null; rm -rf wal_files $TMPDIR
