#!/usr/bin/env python3
"""./check selftest sensitivity [name...]

For every kept seeded change /verif/seeded/<name>/ (patch.diff + meta.json) whose meta.json lists checks under
"detected_by", apply the patch to /repo's working tree (which must be clean), run those checks exactly as registered
(`./check <ID> <tier>`, VERIF_SEED as given in the entry, default 1), expect exit status 1 and a VIOLATION line from
at least one of them, and undo the change (git checkout) straight afterwards. Output of these runs goes to
target/mutant-out/, never to evidence/ or replays/.

Exit 0: every change listed as detected was detected again. Exit 1: some listed detection did not repeat.
Exit 2: harness problem (dirty /repo, patch does not apply, build failure).
"""
import json, os, subprocess, sys, time

ROOT = os.path.dirname(os.path.abspath(__file__))
REPO = "/repo"


def sh(cmd, **kw):
    return subprocess.run(cmd, shell=True, text=True, capture_output=True, **kw)


def main():
    names = sys.argv[1:]
    seeded = os.path.join(ROOT, "seeded")
    if not names:
        names = sorted(d for d in os.listdir(seeded) if os.path.isfile(os.path.join(seeded, d, "meta.json")))
    if sh(f"git -C {REPO} diff --quiet").returncode != 0:
        print("selftest sensitivity: /repo working tree is not clean")
        return 2
    bad = 0
    rows = []
    for n in names:
        d = os.path.join(seeded, n)
        meta = json.load(open(os.path.join(d, "meta.json")))
        det = meta.get("detected_by") or []
        if not det:
            rows.append((n, meta.get("property"), "not detected by any check (listed as missed)", "-"))
            continue
        patch = os.path.join(d, "patch.diff")
        r = sh(f"git -C {REPO} apply {patch}")
        if r.returncode != 0:
            print(f"selftest sensitivity: {n}: patch does not apply: {r.stderr.strip()[:300]}")
            sh(f"git -C {REPO} checkout -- .")
            return 2
        try:
            out_dir = os.path.join(ROOT, "target", "mutant-out", n)
            os.makedirs(os.path.join(out_dir, "evidence"), exist_ok=True)
            os.makedirs(os.path.join(out_dir, "replays"), exist_ok=True)
            hit = None
            for e in det:
                env = dict(os.environ, VERIF_EVIDENCE_DIR=os.path.join(out_dir, "evidence"), VERIF_REPLAY_DIR=os.path.join(out_dir, "replays"), VERIF_SEED=str(e.get("seed", 1)))
                t0 = time.time()
                r = sh(f"./check {e['check']} {e.get('tier', 'quick')}", cwd=ROOT, env=env)
                open(os.path.join(out_dir, f"{e['check']}.log"), "w").write(r.stdout + r.stderr)
                viol = [l for l in r.stdout.splitlines() if l.startswith("VIOLATION property=")]
                if r.returncode == 2:
                    print(f"selftest sensitivity: {n}: {e['check']} ended with a harness error")
                if r.returncode == 1 and viol:
                    hit = (e["check"], e.get("tier", "quick"), int(time.time() - t0), viol[0])
                    break
            if hit:
                rows.append((n, meta.get("property"), f"detected by {hit[0]} {hit[1]} in {hit[2]} s", hit[3]))
            else:
                rows.append((n, meta.get("property"), "LISTED AS DETECTED BUT NOT DETECTED", "-"))
                bad = 1
        finally:
            sh(f"git -C {REPO} checkout -- .")
    # the harness binaries were last built from a changed tree: rebuild them from the restored one
    sh("./check setup", cwd=ROOT)
    for r in rows:
        print("selftest sensitivity: %-28s %-4s %s  %s" % r)
    return bad


if __name__ == "__main__":
    sys.exit(main())
