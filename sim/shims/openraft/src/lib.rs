//! Data carriers and storage-trait signatures only. Nothing here decides anything: the
//! behaviour under test lives in octopii's storage adapter, which is compiled unchanged.
use serde::{de::DeserializeOwned, Deserialize, Serialize};
use std::collections::{BTreeMap, BTreeSet};
use std::fmt::Debug;
use std::hash::Hash;
use std::io;
use std::ops::RangeBounds;

pub trait OptionalSend: Send {}
impl<T: Send + ?Sized> OptionalSend for T {}

pub trait RaftTypeConfig: Sized + Send + Sync + Debug + Clone + Copy + Default + Eq + PartialEq + Ord + PartialOrd + 'static {
    type D: Clone + Debug + Send + Sync + Serialize + DeserializeOwned + 'static;
    type R: Clone + Debug + Send + Sync + Serialize + DeserializeOwned + 'static;
    type NodeId: Copy + Clone + Debug + Default + Eq + Ord + Hash + Send + Sync + Serialize + DeserializeOwned + 'static;
    type SnapshotData: Send + 'static;
}

#[macro_export]
macro_rules! declare_raft_types {
    ($vis:vis $name:ident : D = $d:ty, R = $r:ty, NodeId = $n:ty $(,)?) => {
        #[derive(Debug, Clone, Copy, Default, Eq, PartialEq, Ord, PartialOrd)]
        $vis struct $name;
        impl $crate::RaftTypeConfig for $name {
            type D = $d;
            type R = $r;
            type NodeId = $n;
            type SnapshotData = std::io::Cursor<Vec<u8>>;
        }
    };
}

#[derive(Debug, Clone, Copy, Default, PartialEq, Eq, PartialOrd, Ord, Serialize, Deserialize)]
#[serde(bound = "")]
pub struct LeaderId<C: RaftTypeConfig> {
    pub term: u64,
    pub node_id: C::NodeId,
}

#[derive(Debug, Clone, Copy, Default, PartialEq, Eq, PartialOrd, Ord, Serialize, Deserialize)]
#[serde(bound = "")]
pub struct LogId<C: RaftTypeConfig> {
    pub leader_id: LeaderId<C>,
    pub index: u64,
}

impl<C: RaftTypeConfig> LogId<C> {
    pub fn new(term: u64, node_id: C::NodeId, index: u64) -> Self {
        LogId { leader_id: LeaderId { term, node_id }, index }
    }
}

#[derive(Debug, Clone, Default, PartialEq, Eq, Serialize, Deserialize)]
#[serde(bound = "")]
pub struct Vote<C: RaftTypeConfig> {
    pub leader_id: LeaderId<C>,
    pub committed: bool,
}

#[derive(Debug, Clone, Default, PartialEq, Eq, Serialize, Deserialize)]
#[serde(bound = "")]
pub struct Membership<C: RaftTypeConfig> {
    pub configs: Vec<BTreeSet<C::NodeId>>,
    pub nodes: BTreeMap<C::NodeId, ()>,
}

#[derive(Debug, Clone, PartialEq, Eq, Serialize, Deserialize)]
#[serde(bound = "")]
pub enum EntryPayload<C: RaftTypeConfig> {
    Blank,
    Normal(C::D),
    Membership(Membership<C>),
}

#[derive(Debug, Clone, Serialize, Deserialize)]
#[serde(bound = "")]
pub struct Entry<C: RaftTypeConfig> {
    pub log_id: LogId<C>,
    pub payload: EntryPayload<C>,
}

#[derive(Debug, Clone, Default, PartialEq, Eq, Serialize, Deserialize)]
#[serde(bound = "")]
pub struct StoredMembership<C: RaftTypeConfig> {
    pub log_id: Option<LogId<C>>,
    pub membership: Membership<C>,
}

impl<C: RaftTypeConfig> StoredMembership<C> {
    pub fn new(log_id: Option<LogId<C>>, membership: Membership<C>) -> Self {
        StoredMembership { log_id, membership }
    }
}

#[derive(Debug)]
pub struct StorageError<C: RaftTypeConfig>(pub String, std::marker::PhantomData<C>);

#[allow(async_fn_in_trait)]
pub trait RaftLogReader<C: RaftTypeConfig> {
    async fn try_get_log_entries<RB: RangeBounds<u64> + Clone + Debug + Send>(&mut self, range: RB) -> Result<Vec<Entry<C>>, io::Error>;
    async fn read_vote(&mut self) -> Result<Option<Vote<C>>, io::Error>;
}

pub mod alias {
    pub type SnapshotDataOf<C> = <C as super::RaftTypeConfig>::SnapshotData;
}

pub mod storage {
    use super::*;
    use std::cell::Cell;
    use std::rc::Rc;

    #[derive(Debug, Clone, Default, PartialEq, Eq)]
    pub struct LogState<C: RaftTypeConfig> {
        pub last_purged_log_id: Option<LogId<C>>,
        pub last_log_id: Option<LogId<C>>,
    }

    #[derive(Debug, Clone, Default, PartialEq, Eq)]
    pub struct SnapshotMeta<C: RaftTypeConfig> {
        pub last_log_id: Option<LogId<C>>,
        pub last_membership: StoredMembership<C>,
        pub snapshot_id: String,
    }

    pub struct Snapshot<C: RaftTypeConfig> {
        pub meta: SnapshotMeta<C>,
        pub snapshot: C::SnapshotData,
    }

    /// Completion callback of an append; the harness observes whether it was called.
    pub struct IOFlushed<C: RaftTypeConfig> {
        done: Rc<Cell<Option<bool>>>,
        _c: std::marker::PhantomData<C>,
    }

    // the simulator is single-threaded; openraft's type is Send
    unsafe impl<C: RaftTypeConfig> Send for IOFlushed<C> {}

    impl<C: RaftTypeConfig> IOFlushed<C> {
        pub fn new() -> (Self, Rc<Cell<Option<bool>>>) {
            let done = Rc::new(Cell::new(None));
            (IOFlushed { done: done.clone(), _c: std::marker::PhantomData }, done)
        }
        pub async fn io_completed(self, r: Result<(), io::Error>) {
            self.done.set(Some(r.is_ok()));
        }
    }

    pub struct ApplyResponder<C: RaftTypeConfig> {
        slot: Rc<std::cell::RefCell<Vec<C::R>>>,
    }
    unsafe impl<C: RaftTypeConfig> Send for ApplyResponder<C> {}

    impl<C: RaftTypeConfig> ApplyResponder<C> {
        pub fn new() -> (Self, Rc<std::cell::RefCell<Vec<C::R>>>) {
            let slot = Rc::new(std::cell::RefCell::new(Vec::new()));
            (ApplyResponder { slot: slot.clone() }, slot)
        }
        pub fn send(self, r: C::R) {
            self.slot.borrow_mut().push(r);
        }
    }

    pub type EntryResponder<C> = (Entry<C>, Option<ApplyResponder<C>>);

    #[allow(async_fn_in_trait)]
    pub trait RaftLogStorage<C: RaftTypeConfig>: Sized {
        type LogReader: RaftLogReader<C>;
        async fn get_log_state(&mut self) -> Result<LogState<C>, io::Error>;
        async fn save_committed(&mut self, committed: Option<LogId<C>>) -> Result<(), io::Error>;
        async fn read_committed(&mut self) -> Result<Option<LogId<C>>, io::Error>;
        async fn save_vote(&mut self, vote: &Vote<C>) -> Result<(), io::Error>;
        async fn append<I>(&mut self, entries: I, callback: IOFlushed<C>) -> Result<(), io::Error>
        where
            I: IntoIterator<Item = Entry<C>> + OptionalSend,
            I::IntoIter: OptionalSend;
        async fn truncate(&mut self, log_id: LogId<C>) -> Result<(), io::Error>;
        async fn purge(&mut self, log_id: LogId<C>) -> Result<(), io::Error>;
        async fn get_log_reader(&mut self) -> Self::LogReader;
    }

    #[allow(async_fn_in_trait)]
    pub trait RaftSnapshotBuilder<C: RaftTypeConfig> {
        async fn build_snapshot(&mut self) -> Result<Snapshot<C>, io::Error>;
    }

    #[allow(async_fn_in_trait)]
    pub trait RaftStateMachine<C: RaftTypeConfig>: Sized {
        type SnapshotBuilder: RaftSnapshotBuilder<C>;
        async fn applied_state(&mut self) -> Result<(Option<LogId<C>>, StoredMembership<C>), io::Error>;
        async fn apply<Strm>(&mut self, entries: Strm) -> Result<(), io::Error>
        where
            Strm: futures_like::Stream<Item = Result<EntryResponder<C>, io::Error>> + Unpin + OptionalSend;
        async fn begin_receiving_snapshot(&mut self) -> Result<C::SnapshotData, io::Error>;
        async fn install_snapshot(&mut self, meta: &SnapshotMeta<C>, snapshot: C::SnapshotData) -> Result<(), io::Error>;
        async fn get_current_snapshot(&mut self) -> Result<Option<Snapshot<C>>, io::Error>;
        async fn get_snapshot_builder(&mut self) -> Self::SnapshotBuilder;
    }

    /// The `Stream` trait of the `futures` shim, re-exported so the signatures agree.
    pub mod futures_like {
        pub use futures::Stream;
    }
}
