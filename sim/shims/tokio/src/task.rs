use std::cell::RefCell;
use std::future::Future;
use std::pin::Pin;
use std::rc::Rc;
use std::task::{Context, Poll, Waker};

#[derive(Debug)]
pub struct JoinError(String);

impl std::fmt::Display for JoinError {
    fn fmt(&self, f: &mut std::fmt::Formatter<'_>) -> std::fmt::Result {
        write!(f, "task failed: {}", self.0)
    }
}
impl std::error::Error for JoinError {}

struct JoinState<T> {
    value: Option<T>,
    waker: Option<Waker>,
}

pub struct JoinHandle<T> {
    state: Rc<RefCell<JoinState<T>>>,
}

// The simulator is single-threaded; handles never cross threads. The real tokio types are Send,
// and the code under test stores them in places that require it.
unsafe impl<T> Send for JoinHandle<T> {}
unsafe impl<T> Sync for JoinHandle<T> {}

impl<T> Future for JoinHandle<T> {
    type Output = Result<T, JoinError>;
    fn poll(self: Pin<&mut Self>, cx: &mut Context<'_>) -> Poll<Self::Output> {
        let mut s = self.state.borrow_mut();
        match s.value.take() {
            Some(v) => Poll::Ready(Ok(v)),
            None => {
                s.waker = Some(cx.waker().clone());
                Poll::Pending
            }
        }
    }
}

pub fn spawn<F>(fut: F) -> JoinHandle<F::Output>
where
    F: Future + 'static,
    F::Output: 'static,
{
    let state = Rc::new(RefCell::new(JoinState { value: None, waker: None }));
    let st2 = state.clone();
    crate::sim::spawn_task(
        "task",
        Box::pin(async move {
            let v = fut.await;
            let mut s = st2.borrow_mut();
            s.value = Some(v);
            if let Some(w) = s.waker.take() {
                w.wake();
            }
        }),
    );
    JoinHandle { state }
}

/// The closure runs as one atomically executed step of its own task.
pub fn spawn_blocking<F, R>(f: F) -> JoinHandle<R>
where
    F: FnOnce() -> R + 'static,
    R: 'static,
{
    spawn(async move {
        crate::sim::maybe_yield().await;
        crate::sim::stat("spawn_blocking", 1);
        f()
    })
}

/// In the simulator everything already runs on one thread: just run the closure.
pub fn block_in_place<F, R>(f: F) -> R
where
    F: FnOnce() -> R,
{
    f()
}
