//! Virtual time: sleep, interval, timeout on the simulator's clock.
pub use std::time::Duration;
use std::future::Future;
use std::pin::Pin;
use std::task::{Context, Poll};

pub mod error {
    #[derive(Debug, PartialEq, Eq)]
    pub struct Elapsed(pub(crate) ());
    impl std::fmt::Display for Elapsed {
        fn fmt(&self, f: &mut std::fmt::Formatter<'_>) -> std::fmt::Result {
            write!(f, "deadline has elapsed")
        }
    }
    impl std::error::Error for Elapsed {}
}

pub struct Sleep {
    deadline: u128,
    timer: Option<u64>,
}

impl Future for Sleep {
    type Output = ();
    fn poll(mut self: Pin<&mut Self>, cx: &mut Context<'_>) -> Poll<()> {
        if crate::sim::now_ns() >= self.deadline {
            if let Some(t) = self.timer.take() {
                crate::sim::cancel_timer(t);
            }
            return Poll::Ready(());
        }
        if let Some(t) = self.timer.take() {
            crate::sim::cancel_timer(t);
        }
        self.timer = Some(crate::sim::add_timer(self.deadline, cx.waker().clone()));
        Poll::Pending
    }
}

impl Drop for Sleep {
    fn drop(&mut self) {
        if let Some(t) = self.timer.take() {
            crate::sim::cancel_timer(t);
        }
    }
}

pub fn sleep(d: Duration) -> Sleep {
    Sleep { deadline: crate::sim::now_ns() + d.as_nanos(), timer: None }
}

pub fn sleep_until_ns(at: u128) -> Sleep {
    Sleep { deadline: at, timer: None }
}

pub struct Interval {
    next: u128,
    period: u128,
}

pub fn interval(period: Duration) -> Interval {
    Interval { next: crate::sim::now_ns(), period: period.as_nanos().max(1) }
}

impl Interval {
    /// First tick completes immediately, later ticks every `period` (missed ticks burst, as in tokio).
    pub async fn tick(&mut self) {
        let at = self.next;
        sleep_until_ns(at).await;
        self.next = at + self.period;
    }
}

pub struct Timeout<F> {
    fut: Pin<Box<F>>,
    sleep: Sleep,
}

pub fn timeout<F: Future>(d: Duration, fut: F) -> Timeout<F> {
    Timeout { fut: Box::pin(fut), sleep: sleep(d) }
}

impl<F: Future> Future for Timeout<F> {
    type Output = Result<F::Output, error::Elapsed>;
    fn poll(mut self: Pin<&mut Self>, cx: &mut Context<'_>) -> Poll<Self::Output> {
        if let Poll::Ready(v) = self.fut.as_mut().poll(cx) {
            return Poll::Ready(Ok(v));
        }
        match Pin::new(&mut self.sleep).poll(cx) {
            Poll::Ready(()) => Poll::Ready(Err(error::Elapsed(()))),
            Poll::Pending => Poll::Pending,
        }
    }
}
