//! The executor and its control surface for the harness.
use std::cell::RefCell;
use std::collections::{BTreeMap, BTreeSet, BinaryHeap};
use std::future::Future;
use std::pin::Pin;
use std::sync::{Arc, Mutex};
use std::task::{Context, Poll, Wake, Waker};

pub type TaskId = u64;

#[derive(Clone, Debug)]
pub struct Config {
    pub seed: u64,
    /// probability that a primitive yields although it could complete immediately
    pub p_yield: f64,
    /// upper bound of the virtual nanoseconds added per executor step
    pub ns_per_step: u64,
    /// "random" | "fifo" | "lifo_bias"
    pub policy: String,
    pub max_steps: u64,
}

impl Default for Config {
    fn default() -> Self {
        Config { seed: 1, p_yield: 0.3, ns_per_step: 20_000, policy: "random".into(), max_steps: 5_000_000 }
    }
}

struct Rng(u64);
impl Rng {
    fn next(&mut self) -> u64 {
        self.0 = self.0.wrapping_add(0x9E3779B97F4A7C15);
        let mut z = self.0;
        z = (z ^ (z >> 30)).wrapping_mul(0xBF58476D1CE4E5B9);
        z = (z ^ (z >> 27)).wrapping_mul(0x94D049BB133111EB);
        z ^ (z >> 31)
    }
    fn below(&mut self, n: u64) -> u64 {
        if n == 0 {
            0
        } else {
            self.next() % n
        }
    }
    fn chance(&mut self, p: f64) -> bool {
        ((self.next() >> 11) as f64) * (1.0 / ((1u64 << 53) as f64)) < p
    }
}

struct TaskSlot {
    fut: Option<Pin<Box<dyn Future<Output = ()>>>>,
    label: u64,
    name: String,
}

#[derive(PartialEq, Eq)]
struct Timer {
    at: u128,
    seq: u64,
}
impl Ord for Timer {
    fn cmp(&self, o: &Self) -> std::cmp::Ordering {
        // min-heap
        (o.at, o.seq).cmp(&(self.at, self.seq))
    }
}
impl PartialOrd for Timer {
    fn partial_cmp(&self, o: &Self) -> Option<std::cmp::Ordering> {
        Some(self.cmp(o))
    }
}

pub struct Exec {
    cfg: Config,
    rng: Rng,
    tasks: BTreeMap<TaskId, TaskSlot>,
    next_task: TaskId,
    timers: BinaryHeap<Timer>,
    timer_wakers: BTreeMap<u64, Waker>,
    timer_seq: u64,
    pub now_ns: u128,
    pub step: u64,
    pub current: Option<TaskId>,
    pub sched_hash: u64,
    pub stats: BTreeMap<String, u64>,
}

/// Ready set shared with wakers (wakers must be Send + Sync; everything runs on one thread).
static READY: Mutex<BTreeSet<TaskId>> = Mutex::new(BTreeSet::new());

thread_local! {
    static EXEC: RefCell<Option<Exec>> = const { RefCell::new(None) };
    static NEW_TASKS: RefCell<Vec<(TaskId, TaskSlot)>> = const { RefCell::new(Vec::new()) };
    static LABEL: RefCell<u64> = const { RefCell::new(0) };
}

struct TaskWaker(TaskId);
impl Wake for TaskWaker {
    fn wake(self: Arc<Self>) {
        READY.lock().unwrap().insert(self.0);
    }
    fn wake_by_ref(self: &Arc<Self>) {
        READY.lock().unwrap().insert(self.0);
    }
}

pub fn init(cfg: Config) {
    READY.lock().unwrap().clear();
    NEW_TASKS.with(|n| n.borrow_mut().clear());
    let seed = cfg.seed;
    EXEC.with(|e| {
        *e.borrow_mut() = Some(Exec {
            cfg,
            rng: Rng(seed ^ 0xD51A_0000),
            tasks: BTreeMap::new(),
            next_task: 1,
            timers: BinaryHeap::new(),
            timer_wakers: BTreeMap::new(),
            timer_seq: 0,
            now_ns: 1_700_000_000_000_000_000,
            step: 0,
            current: None,
            sched_hash: 0xcbf29ce484222325,
            stats: BTreeMap::new(),
        })
    });
}

fn with<R>(f: impl FnOnce(&mut Exec) -> R) -> R {
    EXEC.with(|e| f(e.borrow_mut().as_mut().expect("tokio shim: sim::init not called")))
}

pub fn now_ns() -> u128 {
    with(|e| e.now_ns)
}

pub fn step() -> u64 {
    with(|e| e.step)
}

pub fn sched_hash() -> u64 {
    with(|e| e.sched_hash)
}

pub fn stat(name: &str, n: u64) {
    with(|e| *e.stats.entry(name.to_string()).or_insert(0) += n);
}

pub fn stats() -> BTreeMap<String, u64> {
    with(|e| e.stats.clone())
}

/// Id of the task being polled (0 outside a task).
pub fn current_task() -> u64 {
    with(|e| e.current.unwrap_or(0))
}

/// Label (e.g. node id) inherited by tasks spawned from the current task.
pub fn current_label() -> u64 {
    LABEL.with(|l| *l.borrow())
}

pub fn set_label(l: u64) {
    LABEL.with(|x| *x.borrow_mut() = l);
}

/// Seeded coin for harness-level decisions (drawn from the executor's PRNG).
pub fn chance(p: f64) -> bool {
    with(|e| e.rng.chance(p))
}

pub fn below(n: u64) -> u64 {
    with(|e| e.rng.below(n))
}

pub(crate) fn should_yield() -> bool {
    with(|e| {
        let p = e.cfg.p_yield;
        p > 0.0 && e.rng.chance(p)
    })
}

pub(crate) fn spawn_task(name: &str, fut: Pin<Box<dyn Future<Output = ()>>>) -> TaskId {
    let label = current_label();
    let id = with(|e| {
        let id = e.next_task;
        e.next_task += 1;
        id
    });
    NEW_TASKS.with(|n| n.borrow_mut().push((id, TaskSlot { fut: Some(fut), label, name: name.to_string() })));
    READY.lock().unwrap().insert(id);
    id
}

pub(crate) fn add_timer(at: u128, waker: Waker) -> u64 {
    with(|e| {
        e.timer_seq += 1;
        let seq = e.timer_seq;
        e.timers.push(Timer { at, seq });
        e.timer_wakers.insert(seq, waker);
        seq
    })
}

pub(crate) fn cancel_timer(seq: u64) {
    with(|e| {
        e.timer_wakers.remove(&seq);
    });
}

fn fire_due_timers(e: &mut Exec) {
    while let Some(t) = e.timers.peek() {
        if t.at <= e.now_ns {
            let t = e.timers.pop().unwrap();
            if let Some(w) = e.timer_wakers.remove(&t.seq) {
                w.wake();
            }
        } else {
            break;
        }
    }
}

#[derive(Debug, PartialEq, Eq)]
pub enum RunEnd {
    /// the predicate became true
    Done,
    /// nothing left to run and no timer pending
    Idle,
    StepBudget,
    TimeLimit,
}

/// Run tasks until `done()` holds (checked between steps), the virtual deadline passes, or
/// nothing can run any more.
pub fn run_until(mut done: impl FnMut() -> bool, virtual_deadline_ns: u128) -> RunEnd {
    loop {
        if done() {
            return RunEnd::Done;
        }
        // admit newly spawned tasks
        let new: Vec<(TaskId, TaskSlot)> = NEW_TASKS.with(|n| std::mem::take(&mut *n.borrow_mut()));
        with(|e| {
            for (id, slot) in new {
                e.tasks.insert(id, slot);
            }
            fire_due_timers(e);
        });
        let pick = with(|e| {
            if e.step >= e.cfg.max_steps {
                return Err(RunEnd::StepBudget);
            }
            if e.now_ns > virtual_deadline_ns {
                return Err(RunEnd::TimeLimit);
            }
            let mut ready = READY.lock().unwrap();
            // drop ids of finished tasks
            let live: Vec<TaskId> = ready.iter().copied().filter(|id| e.tasks.contains_key(id)).collect();
            if live.len() != ready.len() {
                *ready = live.iter().copied().collect();
            }
            if live.is_empty() {
                drop(ready);
                // idle: jump to the next timer
                loop {
                    match e.timers.peek() {
                        Some(t) => {
                            if e.timer_wakers.contains_key(&t.seq) {
                                e.now_ns = e.now_ns.max(t.at);
                                fire_due_timers(e);
                                return Ok(None);
                            } else {
                                e.timers.pop();
                            }
                        }
                        None => return Err(RunEnd::Idle),
                    }
                }
            }
            let idx = match e.cfg.policy.as_str() {
                "fifo" => 0,
                "lifo_bias" => {
                    if e.rng.chance(0.5) {
                        live.len() - 1
                    } else {
                        e.rng.below(live.len() as u64) as usize
                    }
                }
                _ => e.rng.below(live.len() as u64) as usize,
            };
            let id = live[idx];
            ready.remove(&id);
            e.step += 1;
            if e.cfg.ns_per_step > 0 {
                let d = e.rng.below(e.cfg.ns_per_step + 1);
                e.now_ns += d as u128;
            }
            let mut h = e.sched_hash;
            for b in (id ^ ((live.len() as u64) << 48)).to_le_bytes() {
                h ^= b as u64;
                h = h.wrapping_mul(0x00000100000001B3);
            }
            e.sched_hash = h;
            Ok(Some(id))
        });
        let id = match pick {
            Err(end) => return end,
            Ok(None) => continue,
            Ok(Some(id)) => id,
        };
        // take the future out so that the task may re-enter the executor (spawn, timers) while polled
        let (mut fut, label) = match with(|e| e.tasks.get_mut(&id).and_then(|s| s.fut.take().map(|f| (f, s.label)))) {
            Some(x) => x,
            None => continue,
        };
        let prev_label = current_label();
        set_label(label);
        with(|e| e.current = Some(id));
        let waker = Waker::from(Arc::new(TaskWaker(id)));
        let mut cx = Context::from_waker(&waker);
        // like the real runtime, a panic ends the task it happened in (its future is dropped, which closes what it
        // owned), not the executor; the panic hook of the harness has recorded it
        let res = match std::panic::catch_unwind(std::panic::AssertUnwindSafe(|| fut.as_mut().poll(&mut cx))) {
            Ok(r) => r,
            Err(_) => {
                with(|e| *e.stats.entry("task_panics".to_string()).or_insert(0) += 1);
                Poll::Ready(())
            }
        };
        with(|e| e.current = None);
        set_label(prev_label);
        match res {
            Poll::Ready(()) => {
                with(|e| {
                    e.tasks.remove(&id);
                });
            }
            Poll::Pending => {
                with(|e| {
                    if let Some(s) = e.tasks.get_mut(&id) {
                        s.fut = Some(fut);
                    }
                });
            }
        }
    }
}

pub fn task_names() -> Vec<String> {
    with(|e| e.tasks.values().map(|t| format!("{}@{}", t.name, t.label)).collect())
}

/// A future that yields once to the scheduler with the configured probability.
pub struct MaybeYield(bool);

pub fn maybe_yield() -> MaybeYield {
    MaybeYield(should_yield())
}

pub fn yield_now() -> MaybeYield {
    MaybeYield(true)
}

impl Future for MaybeYield {
    type Output = ();
    fn poll(mut self: Pin<&mut Self>, cx: &mut Context<'_>) -> Poll<()> {
        if self.0 {
            self.0 = false;
            cx.waker().wake_by_ref();
            Poll::Pending
        } else {
            Poll::Ready(())
        }
    }
}


/// Drive a single future to completion on the calling thread (no task system involved).
/// When the future is pending, the clock jumps to the next timer.
pub fn block_on<F: Future>(fut: F) -> F::Output {
    struct Flag(std::sync::atomic::AtomicBool);
    impl Wake for Flag {
        fn wake(self: Arc<Self>) {
            self.0.store(true, std::sync::atomic::Ordering::SeqCst);
        }
    }
    let flag = Arc::new(Flag(std::sync::atomic::AtomicBool::new(true)));
    let waker = Waker::from(flag.clone());
    let mut cx = Context::from_waker(&waker);
    let mut fut = Box::pin(fut);
    let mut spins = 0u64;
    loop {
        if flag.0.swap(false, std::sync::atomic::Ordering::SeqCst) {
            if let Poll::Ready(v) = fut.as_mut().poll(&mut cx) {
                return v;
            }
        }
        // advance virtual time to the next timer and fire it
        let fired = with(|e| {
            while let Some(t) = e.timers.peek() {
                if e.timer_wakers.contains_key(&t.seq) {
                    e.now_ns = e.now_ns.max(t.at);
                    fire_due_timers(e);
                    return true;
                } else {
                    e.timers.pop();
                }
            }
            false
        });
        spins += 1;
        if !fired && !flag.0.load(std::sync::atomic::Ordering::SeqCst) {
            if spins > 1_000_000 {
                panic!("tokio shim: block_on future can make no progress");
            }
            // woken through another channel? give it one more poll
            flag.0.store(true, std::sync::atomic::Ordering::SeqCst);
        }
    }
}
