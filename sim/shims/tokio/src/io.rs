//! `read_exact` / `write_all` over the in-memory pipes.
use crate::net::TcpStream;
use std::future::Future;
use std::pin::Pin;
use std::task::{Context, Poll};

pub struct ReadExact<'a> {
    s: &'a mut TcpStream,
    buf: &'a mut [u8],
    filled: usize,
}

impl<'a> Future for ReadExact<'a> {
    type Output = std::io::Result<usize>;
    fn poll(mut self: Pin<&mut Self>, cx: &mut Context<'_>) -> Poll<Self::Output> {
        let me = &mut *self;
        let mut p = me.s.rx.borrow_mut();
        while me.filled < me.buf.len() {
            match p.buf.pop_front() {
                Some(b) => {
                    me.buf[me.filled] = b;
                    me.filled += 1;
                }
                None => break,
            }
        }
        if me.filled == me.buf.len() {
            return Poll::Ready(Ok(me.filled));
        }
        if p.closed {
            return Poll::Ready(Err(std::io::Error::new(std::io::ErrorKind::UnexpectedEof, "early eof")));
        }
        p.waker = Some(cx.waker().clone());
        Poll::Pending
    }
}

/// `read`: whatever has arrived, at most `buf.len()` bytes - and, like a real socket, possibly fewer than are
/// already buffered (a seeded short read); 0 only at end of stream.
pub struct Read<'a> {
    s: &'a mut TcpStream,
    buf: &'a mut [u8],
}

impl<'a> Future for Read<'a> {
    type Output = std::io::Result<usize>;
    fn poll(mut self: Pin<&mut Self>, cx: &mut Context<'_>) -> Poll<Self::Output> {
        let me = &mut *self;
        let mut p = me.s.rx.borrow_mut();
        if me.buf.is_empty() {
            return Poll::Ready(Ok(0));
        }
        if p.buf.is_empty() {
            if p.closed {
                return Poll::Ready(Ok(0));
            }
            p.waker = Some(cx.waker().clone());
            return Poll::Pending;
        }
        let avail = p.buf.len().min(me.buf.len());
        let n = if avail > 1 && crate::sim::chance(0.5) { 1 + crate::sim::below(avail as u64) as usize } else { avail };
        for i in 0..n {
            me.buf[i] = p.buf.pop_front().unwrap();
        }
        Poll::Ready(Ok(n))
    }
}

pub trait AsyncReadExt {
    fn read_exact<'a>(&'a mut self, buf: &'a mut [u8]) -> ReadExact<'a>;
    fn read<'a>(&'a mut self, buf: &'a mut [u8]) -> Read<'a>;
}

impl AsyncReadExt for TcpStream {
    fn read_exact<'a>(&'a mut self, buf: &'a mut [u8]) -> ReadExact<'a> {
        ReadExact { s: self, buf, filled: 0 }
    }
    fn read<'a>(&'a mut self, buf: &'a mut [u8]) -> Read<'a> {
        Read { s: self, buf }
    }
}

pub struct WriteAll<'a> {
    s: &'a mut TcpStream,
    data: &'a [u8],
    yielded: bool,
}

impl<'a> Future for WriteAll<'a> {
    type Output = std::io::Result<()>;
    fn poll(mut self: Pin<&mut Self>, cx: &mut Context<'_>) -> Poll<Self::Output> {
        if !self.yielded {
            self.yielded = true;
            if crate::sim::chance(0.2) {
                cx.waker().wake_by_ref();
                return Poll::Pending;
            }
        }
        let me = &mut *self;
        let mut p = me.s.tx.borrow_mut();
        if p.closed {
            return Poll::Ready(Err(std::io::Error::new(std::io::ErrorKind::BrokenPipe, "peer closed")));
        }
        p.buf.extend(me.data.iter().copied());
        if let Some(w) = p.waker.take() {
            w.wake();
        }
        Poll::Ready(Ok(()))
    }
}

pub trait AsyncWriteExt {
    fn write_all<'a>(&'a mut self, data: &'a [u8]) -> WriteAll<'a>;
}

impl AsyncWriteExt for TcpStream {
    fn write_all<'a>(&'a mut self, data: &'a [u8]) -> WriteAll<'a> {
        WriteAll { s: self, data, yielded: false }
    }
}
