//! In-memory sockets. A stream is a pair of byte pipes; the harness owns the client end and
//! decides how the bytes are chunked and when the connection closes.
use std::cell::RefCell;
use std::collections::{BTreeMap, VecDeque};
use std::future::Future;
use std::net::SocketAddr;
use std::pin::Pin;
use std::rc::Rc;
use std::task::{Context, Poll, Waker};

pub(crate) struct Pipe {
    pub buf: VecDeque<u8>,
    pub closed: bool,
    pub waker: Option<Waker>,
}

impl Pipe {
    fn new() -> Rc<RefCell<Pipe>> {
        Rc::new(RefCell::new(Pipe { buf: VecDeque::new(), closed: false, waker: None }))
    }
}

pub struct TcpStream {
    pub(crate) rx: Rc<RefCell<Pipe>>,
    pub(crate) tx: Rc<RefCell<Pipe>>,
}

unsafe impl Send for TcpStream {}
unsafe impl Sync for TcpStream {}

impl Drop for TcpStream {
    fn drop(&mut self) {
        let mut t = self.tx.borrow_mut();
        t.closed = true;
        if let Some(w) = t.waker.take() {
            w.wake();
        }
        let mut r = self.rx.borrow_mut();
        r.closed = true;
    }
}

impl TcpStream {
    /// Bytes currently readable without waiting (harness side).
    pub fn take_available(&mut self) -> Vec<u8> {
        self.rx.borrow_mut().buf.drain(..).collect()
    }
    pub fn peer_closed(&self) -> bool {
        self.rx.borrow().closed
    }
    /// Push bytes towards the peer (harness side; no scheduling point).
    pub fn push_bytes(&mut self, bytes: &[u8]) {
        let mut t = self.tx.borrow_mut();
        t.buf.extend(bytes.iter().copied());
        if let Some(w) = t.waker.take() {
            w.wake();
        }
    }
    pub fn close_write(&mut self) {
        let mut t = self.tx.borrow_mut();
        t.closed = true;
        if let Some(w) = t.waker.take() {
            w.wake();
        }
    }
}

struct ListenerState {
    queue: VecDeque<(TcpStream, SocketAddr)>,
    waker: Option<Waker>,
}

thread_local! {
    static LISTENERS: RefCell<BTreeMap<String, Rc<RefCell<ListenerState>>>> = const { RefCell::new(BTreeMap::new()) };
    static HOSTS: RefCell<BTreeMap<String, SocketAddr>> = const { RefCell::new(BTreeMap::new()) };
    static NEXT_PORT: RefCell<u16> = const { RefCell::new(40000) };
}

pub fn sim_reset() {
    LISTENERS.with(|l| l.borrow_mut().clear());
    HOSTS.with(|h| h.borrow_mut().clear());
}

pub fn sim_add_host(name: &str, addr: SocketAddr) {
    HOSTS.with(|h| h.borrow_mut().insert(name.to_string(), addr));
}

pub struct TcpListener {
    state: Rc<RefCell<ListenerState>>,
}

unsafe impl Send for TcpListener {}
unsafe impl Sync for TcpListener {}

impl TcpListener {
    pub async fn bind<A: AsRef<str>>(addr: A) -> std::io::Result<TcpListener> {
        let key = addr.as_ref().to_string();
        let state = Rc::new(RefCell::new(ListenerState { queue: VecDeque::new(), waker: None }));
        let dup = LISTENERS.with(|l| l.borrow_mut().insert(key, state.clone()).is_some());
        if dup {
            return Err(std::io::Error::new(std::io::ErrorKind::AddrInUse, "address in use"));
        }
        Ok(TcpListener { state })
    }

    pub fn accept(&self) -> Accept<'_> {
        Accept { l: self }
    }
}

pub struct Accept<'a> {
    l: &'a TcpListener,
}

impl<'a> Future for Accept<'a> {
    type Output = std::io::Result<(TcpStream, SocketAddr)>;
    fn poll(self: Pin<&mut Self>, cx: &mut Context<'_>) -> Poll<Self::Output> {
        let mut s = self.l.state.borrow_mut();
        match s.queue.pop_front() {
            Some(x) => Poll::Ready(Ok(x)),
            None => {
                s.waker = Some(cx.waker().clone());
                Poll::Pending
            }
        }
    }
}

/// Harness side: open a connection to a listener bound at `addr`.
pub fn sim_connect(addr: &str) -> std::io::Result<TcpStream> {
    let l = LISTENERS.with(|l| l.borrow().get(addr).cloned());
    let Some(l) = l else {
        return Err(std::io::Error::new(std::io::ErrorKind::ConnectionRefused, "no listener"));
    };
    let (a, b) = (Pipe::new(), Pipe::new());
    let client = TcpStream { rx: a.clone(), tx: b.clone() };
    let server = TcpStream { rx: b, tx: a };
    let port = NEXT_PORT.with(|p| {
        let mut p = p.borrow_mut();
        *p = p.wrapping_add(1).max(40000);
        *p
    });
    let peer: SocketAddr = format!("10.0.0.99:{}", port).parse().unwrap();
    let mut s = l.borrow_mut();
    s.queue.push_back((server, peer));
    if let Some(w) = s.waker.take() {
        w.wake();
    }
    Ok(client)
}

pub async fn lookup_host<A: AsRef<str>>(addr: A) -> std::io::Result<std::vec::IntoIter<SocketAddr>> {
    crate::sim::maybe_yield().await;
    let a = addr.as_ref();
    if let Ok(sock) = a.parse::<SocketAddr>() {
        return Ok(vec![sock].into_iter());
    }
    let found = HOSTS.with(|h| h.borrow().get(a).copied());
    match found {
        Some(s) => Ok(vec![s].into_iter()),
        None => Err(std::io::Error::new(std::io::ErrorKind::NotFound, format!("cannot resolve {}", a))),
    }
}
