//! Async Mutex / RwLock for the single-threaded simulator. Acquisition is a scheduling point
//! (seeded yield) even when the lock is free.
use std::cell::{RefCell, UnsafeCell};
use std::future::Future;
use std::ops::{Deref, DerefMut};
use std::pin::Pin;
use std::sync::Arc;
use std::task::{Context, Poll, Waker};

struct LockState {
    /// -1 = write-locked, n >= 0 = number of readers
    state: i64,
    waiters: Vec<Waker>,
}

impl LockState {
    fn wake_all(&mut self) {
        for w in self.waiters.drain(..) {
            w.wake();
        }
    }
}

pub struct Mutex<T: ?Sized> {
    st: RefCell<LockState>,
    data: UnsafeCell<T>,
}

unsafe impl<T: ?Sized + Send> Send for Mutex<T> {}
unsafe impl<T: ?Sized + Send> Sync for Mutex<T> {}

pub struct MutexGuard<'a, T: ?Sized> {
    m: &'a Mutex<T>,
}

pub struct OwnedMutexGuard<T: ?Sized> {
    m: Arc<Mutex<T>>,
}

unsafe impl<T: ?Sized + Send> Send for OwnedMutexGuard<T> {}
unsafe impl<T: ?Sized + Send + Sync> Sync for OwnedMutexGuard<T> {}
unsafe impl<'a, T: ?Sized + Send> Send for MutexGuard<'a, T> {}

impl<T> Mutex<T> {
    pub fn new(t: T) -> Self {
        Mutex { st: RefCell::new(LockState { state: 0, waiters: Vec::new() }), data: UnsafeCell::new(t) }
    }
}

impl<T: ?Sized> Mutex<T> {
    fn poll_acquire(&self, cx: &mut Context<'_>) -> Poll<()> {
        let mut s = self.st.borrow_mut();
        if s.state == 0 {
            s.state = -1;
            Poll::Ready(())
        } else {
            s.waiters.push(cx.waker().clone());
            Poll::Pending
        }
    }
    fn release(&self) {
        let mut s = self.st.borrow_mut();
        s.state = 0;
        s.wake_all();
    }
    pub async fn lock(&self) -> MutexGuard<'_, T> {
        crate::sim::maybe_yield().await;
        Acquire { f: |cx: &mut Context<'_>| self.poll_acquire(cx) }.await;
        MutexGuard { m: self }
    }
    pub async fn lock_owned(self: Arc<Self>) -> OwnedMutexGuard<T> {
        crate::sim::maybe_yield().await;
        {
            let me = &*self;
            Acquire { f: |cx: &mut Context<'_>| me.poll_acquire(cx) }.await;
        }
        OwnedMutexGuard { m: self }
    }
}

struct Acquire<F: FnMut(&mut Context<'_>) -> Poll<()>> {
    f: F,
}
impl<F: FnMut(&mut Context<'_>) -> Poll<()> + Unpin> Future for Acquire<F> {
    type Output = ();
    fn poll(mut self: Pin<&mut Self>, cx: &mut Context<'_>) -> Poll<()> {
        (self.f)(cx)
    }
}

impl<'a, T: ?Sized> Deref for MutexGuard<'a, T> {
    type Target = T;
    fn deref(&self) -> &T {
        unsafe { &*self.m.data.get() }
    }
}
impl<'a, T: ?Sized> DerefMut for MutexGuard<'a, T> {
    fn deref_mut(&mut self) -> &mut T {
        unsafe { &mut *self.m.data.get() }
    }
}
impl<'a, T: ?Sized> Drop for MutexGuard<'a, T> {
    fn drop(&mut self) {
        self.m.release();
    }
}
impl<T: ?Sized> Deref for OwnedMutexGuard<T> {
    type Target = T;
    fn deref(&self) -> &T {
        unsafe { &*self.m.data.get() }
    }
}
impl<T: ?Sized> DerefMut for OwnedMutexGuard<T> {
    fn deref_mut(&mut self) -> &mut T {
        unsafe { &mut *self.m.data.get() }
    }
}
impl<T: ?Sized> Drop for OwnedMutexGuard<T> {
    fn drop(&mut self) {
        self.m.release();
    }
}

pub struct RwLock<T: ?Sized> {
    st: RefCell<LockState>,
    data: UnsafeCell<T>,
}

unsafe impl<T: ?Sized + Send> Send for RwLock<T> {}
unsafe impl<T: ?Sized + Send + Sync> Sync for RwLock<T> {}

pub struct RwLockReadGuard<'a, T: ?Sized> {
    l: &'a RwLock<T>,
}
pub struct RwLockWriteGuard<'a, T: ?Sized> {
    l: &'a RwLock<T>,
}
unsafe impl<'a, T: ?Sized + Sync> Send for RwLockReadGuard<'a, T> {}
unsafe impl<'a, T: ?Sized + Send> Send for RwLockWriteGuard<'a, T> {}

impl<T> RwLock<T> {
    pub fn new(t: T) -> Self {
        RwLock { st: RefCell::new(LockState { state: 0, waiters: Vec::new() }), data: UnsafeCell::new(t) }
    }
}

impl<T: ?Sized> RwLock<T> {
    pub async fn read(&self) -> RwLockReadGuard<'_, T> {
        crate::sim::maybe_yield().await;
        Acquire {
            f: |cx: &mut Context<'_>| {
                let mut s = self.st.borrow_mut();
                if s.state >= 0 {
                    s.state += 1;
                    Poll::Ready(())
                } else {
                    s.waiters.push(cx.waker().clone());
                    Poll::Pending
                }
            },
        }
        .await;
        RwLockReadGuard { l: self }
    }
    pub async fn write(&self) -> RwLockWriteGuard<'_, T> {
        crate::sim::maybe_yield().await;
        Acquire {
            f: |cx: &mut Context<'_>| {
                let mut s = self.st.borrow_mut();
                if s.state == 0 {
                    s.state = -1;
                    Poll::Ready(())
                } else {
                    s.waiters.push(cx.waker().clone());
                    Poll::Pending
                }
            },
        }
        .await;
        RwLockWriteGuard { l: self }
    }
}

impl<'a, T: ?Sized> Deref for RwLockReadGuard<'a, T> {
    type Target = T;
    fn deref(&self) -> &T {
        unsafe { &*self.l.data.get() }
    }
}
impl<'a, T: ?Sized> Drop for RwLockReadGuard<'a, T> {
    fn drop(&mut self) {
        let mut s = self.l.st.borrow_mut();
        s.state -= 1;
        if s.state == 0 {
            s.wake_all();
        }
    }
}
impl<'a, T: ?Sized> Deref for RwLockWriteGuard<'a, T> {
    type Target = T;
    fn deref(&self) -> &T {
        unsafe { &*self.l.data.get() }
    }
}
impl<'a, T: ?Sized> DerefMut for RwLockWriteGuard<'a, T> {
    fn deref_mut(&mut self) -> &mut T {
        unsafe { &mut *self.l.data.get() }
    }
}
impl<'a, T: ?Sized> Drop for RwLockWriteGuard<'a, T> {
    fn drop(&mut self) {
        let mut s = self.l.st.borrow_mut();
        s.state = 0;
        s.wake_all();
    }
}

impl<T: ?Sized + std::fmt::Debug> std::fmt::Debug for RwLockReadGuard<'_, T> {
    fn fmt(&self, f: &mut std::fmt::Formatter<'_>) -> std::fmt::Result {
        (**self).fmt(f)
    }
}

impl<T: Default> Default for Mutex<T> {
    fn default() -> Self {
        Mutex::new(T::default())
    }
}
impl<T: ?Sized> std::fmt::Debug for Mutex<T> {
    fn fmt(&self, f: &mut std::fmt::Formatter<'_>) -> std::fmt::Result {
        write!(f, "Mutex {{ .. }}")
    }
}
impl<T: Default> Default for RwLock<T> {
    fn default() -> Self {
        RwLock::new(T::default())
    }
}
impl<T: ?Sized> std::fmt::Debug for RwLock<T> {
    fn fmt(&self, f: &mut std::fmt::Formatter<'_>) -> std::fmt::Result {
        write!(f, "RwLock {{ .. }}")
    }
}
