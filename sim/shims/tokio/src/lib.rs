//! Deterministic, single-threaded simulator with the call shapes of the subset of tokio
//! that `distributed-walrus` uses. One OS thread executes every task; a seeded PRNG decides
//! which ready task is polled next; time is virtual (timer heap, clock jumps when idle);
//! the network is in-memory pipes. Every primitive that could complete immediately still
//! yields to the scheduler with a seeded probability, so tasks interleave at await
//! granularity as they would across worker threads.
#![allow(clippy::new_without_default)]

pub mod sim;

pub mod io;
pub mod net;
pub mod runtime;
pub mod sync;
pub mod task;
pub mod time;

pub use task::spawn;
