//! `Handle::current().block_on(..)`: drives one future to completion on the calling thread,
//! advancing the virtual clock when it waits on a timer.
use std::future::Future;

#[derive(Clone, Debug)]
pub struct Handle;

impl Handle {
    pub fn current() -> Handle {
        Handle
    }
    pub fn block_on<F: Future>(&self, fut: F) -> F::Output {
        crate::sim::block_on(fut)
    }
}
