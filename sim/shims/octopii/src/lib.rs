//! Stub of the `octopii` crate for the data-plane simulator.
//!
//! Real: `rpc/message.rs` (included by path from /repo). Re-declared: `StateMachineTrait`
//! (four signatures). Replaced: `OctopiiNode` by a consensus oracle whose behaviour is
//! restricted to what Raft may do (DESIGN.md Appendix C): one committed log per cluster, every
//! replica applies the same commands in the same order with arbitrary finite lag, `propose`
//! reports success only for commands that are committed and applied on the leader, RPCs are
//! delivered once, twice or never within bounded virtual delay.
use bytes::Bytes;
use serde::Serialize;
use std::cell::RefCell;
use std::collections::{BTreeMap, BTreeSet};
use std::future::Future;
use std::net::SocketAddr;
use std::pin::Pin;
use std::rc::Rc;
use std::sync::Arc;
use std::time::Duration;

pub mod rpc {
    #[path = "/repo/octopii/src/rpc/message.rs"]
    mod message;
    pub use message::*;
}

use rpc::{RequestPayload, ResponsePayload, RpcRequest, RpcResponse};

/// Trait for application state machines (same four signatures as octopii/src/state_machine.rs).
pub trait StateMachineTrait: Send + Sync {
    fn apply(&self, command: &[u8]) -> std::result::Result<Bytes, String>;
    fn snapshot(&self) -> Vec<u8>;
    fn restore(&self, data: &[u8]) -> std::result::Result<(), String>;
    fn compact(&self) -> std::result::Result<(), String> {
        Ok(())
    }
}

#[derive(Debug)]
pub struct OctopiiError(pub String);
impl std::fmt::Display for OctopiiError {
    fn fmt(&self, f: &mut std::fmt::Formatter<'_>) -> std::fmt::Result {
        write!(f, "{}", self.0)
    }
}
impl std::error::Error for OctopiiError {}
pub type Result<T> = std::result::Result<T, OctopiiError>;

type Handler = Rc<dyn Fn(RpcRequest) -> Pin<Box<dyn Future<Output = ResponsePayload>>>>;

#[derive(Clone, Debug)]
pub struct ClusterCfg {
    pub propose_delay_ms: (u64, u64),
    pub propose_fail_p: f64,
    /// a failed proposal is nevertheless committed with this probability
    pub fail_but_commit_p: f64,
    pub apply_lag_ms: (u64, u64),
    pub rpc_delay_ms: (u64, u64),
    pub rpc_drop_p: f64,
    pub rpc_dup_p: f64,
    pub leader_change_p: f64,
    pub snapshot_catchup_p: f64,
    pub faults_on: bool,
}

impl Default for ClusterCfg {
    fn default() -> Self {
        ClusterCfg {
            propose_delay_ms: (1, 20),
            propose_fail_p: 0.0,
            fail_but_commit_p: 0.5,
            apply_lag_ms: (0, 50),
            rpc_delay_ms: (0, 20),
            rpc_drop_p: 0.0,
            rpc_dup_p: 0.0,
            leader_change_p: 0.0,
            snapshot_catchup_p: 0.0,
            faults_on: false,
        }
    }
}

struct NodeState {
    addr: SocketAddr,
    sm: Arc<dyn StateMachineTrait>,
    applied: usize,
    handler: Option<Handler>,
    peers: BTreeMap<u64, SocketAddr>,
}

#[derive(Clone, Debug)]
pub struct ApplyEvent {
    pub step: u64,
    pub node: u64,
    pub index: usize,
    pub ok: bool,
}

pub struct Cluster {
    pub cfg: ClusterCfg,
    log: Vec<Vec<u8>>,
    nodes: BTreeMap<u64, NodeState>,
    leader: Option<u64>,
    voters: BTreeSet<u64>,
    pub applies: Vec<ApplyEvent>,
    pub stats: BTreeMap<String, u64>,
    /// called after every apply on every node (invariant checks)
    on_apply: Option<Rc<dyn Fn(u64, usize, &[u8], bool)>>,
}

thread_local! {
    static CLUSTER: RefCell<Option<Cluster>> = const { RefCell::new(None) };
}

fn with<R>(f: impl FnOnce(&mut Cluster) -> R) -> R {
    CLUSTER.with(|c| f(c.borrow_mut().as_mut().expect("octopii stub: cluster not initialised")))
}

fn stat(name: &str) {
    with(|c| *c.stats.entry(name.to_string()).or_insert(0) += 1);
}

fn rand_ms(range: (u64, u64)) -> Duration {
    let (lo, hi) = range;
    let ms = if hi > lo { lo + tokio::sim::below(hi - lo + 1) } else { lo };
    Duration::from_millis(ms)
}

pub mod sim {
    use super::*;

    pub fn init(cfg: ClusterCfg) {
        CLUSTER.with(|c| {
            *c.borrow_mut() = Some(Cluster {
                cfg,
                log: Vec::new(),
                nodes: BTreeMap::new(),
                leader: None,
                voters: BTreeSet::new(),
                applies: Vec::new(),
                stats: BTreeMap::new(),
                on_apply: None,
            })
        });
    }

    pub fn set_on_apply(f: Rc<dyn Fn(u64, usize, &[u8], bool)>) {
        with(|c| c.on_apply = Some(f));
    }

    pub fn set_faults(on: bool) {
        with(|c| c.cfg.faults_on = on);
    }

    pub fn set_leader(id: Option<u64>) {
        with(|c| c.leader = id);
    }

    pub fn committed_len() -> usize {
        with(|c| c.log.len())
    }

    pub fn committed(i: usize) -> Vec<u8> {
        with(|c| c.log[i].clone())
    }

    pub fn applied(node: u64) -> usize {
        with(|c| c.nodes.get(&node).map(|n| n.applied).unwrap_or(0))
    }

    pub fn all_caught_up() -> bool {
        with(|c| c.nodes.values().all(|n| n.applied == c.log.len()))
    }

    pub fn applies() -> Vec<ApplyEvent> {
        with(|c| c.applies.clone())
    }

    pub fn stats() -> BTreeMap<String, u64> {
        with(|c| c.stats.clone())
    }

    /// Background task of one replica: applies committed entries in order, with seeded lag;
    /// may catch up by snapshot/restore from the most advanced replica.
    pub fn spawn_apply_loop(node: u64) {
        tokio::spawn(async move {
            loop {
                let (behind, lag, snap_p) = with(|c| {
                    let n = c.nodes.get(&node).map(|n| n.applied).unwrap_or(0);
                    (c.log.len() - n.min(c.log.len()), if c.cfg.faults_on { c.cfg.apply_lag_ms } else { (0, 2) }, if c.cfg.faults_on { c.cfg.snapshot_catchup_p } else { 0.0 })
                });
                if behind == 0 {
                    tokio::time::sleep(Duration::from_millis(1)).await;
                    continue;
                }
                tokio::time::sleep(rand_ms(lag)).await;
                if behind >= 2 && tokio::sim::chance(snap_p) {
                    // install the snapshot of the most advanced replica
                    let src = with(|c| c.nodes.iter().filter(|(id, _)| **id != node).max_by_key(|(_, n)| n.applied).map(|(id, n)| (*id, n.applied, n.sm.clone())));
                    if let Some((_sid, sapplied, ssm)) = src {
                        let mine = with(|c| c.nodes.get(&node).map(|n| (n.applied, n.sm.clone())));
                        if let Some((mapplied, msm)) = mine {
                            if sapplied > mapplied {
                                let snap = ssm.snapshot();
                                if msm.restore(&snap).is_ok() {
                                    with(|c| {
                                        if let Some(n) = c.nodes.get_mut(&node) {
                                            n.applied = sapplied;
                                        }
                                        *c.stats.entry("snapshot_installs".into()).or_insert(0) += 1;
                                    });
                                    continue;
                                }
                            }
                        }
                    }
                }
                apply_next(node);
            }
        });
    }
}

/// Apply the next committed entry on `node` (if any). Returns the state machine's answer.
fn apply_next(node: u64) -> Option<std::result::Result<Bytes, String>> {
    let next = with(|c| {
        let n = c.nodes.get(&node)?;
        if n.applied < c.log.len() {
            Some((n.applied, c.log[n.applied].clone(), n.sm.clone()))
        } else {
            None
        }
    })?;
    let (idx, cmd, sm) = next;
    let res = sm.apply(&cmd);
    let hook = with(|c| {
        if let Some(n) = c.nodes.get_mut(&node) {
            n.applied = idx + 1;
        }
        c.applies.push(ApplyEvent { step: tokio::sim::step(), node, index: idx, ok: res.is_ok() });
        c.on_apply.clone()
    });
    if let Some(h) = hook {
        h(node, idx, &cmd, res.is_ok());
    }
    Some(res)
}

#[derive(Clone, Debug, Serialize)]
pub struct Membership {
    configs: Vec<BTreeSet<u64>>,
}
impl Membership {
    pub fn get_joint_config(&self) -> &Vec<BTreeSet<u64>> {
        &self.configs
    }
}
#[derive(Clone, Debug, Serialize)]
pub struct MembershipConfig {
    membership: Membership,
}
impl MembershipConfig {
    pub fn membership(&self) -> &Membership {
        &self.membership
    }
}
#[derive(Clone, Debug, Serialize)]
pub struct RaftMetrics {
    pub id: u64,
    pub current_leader: Option<u64>,
    pub state: String,
    pub last_log_index: Option<u64>,
    pub membership_config: MembershipConfig,
}

pub struct RpcHandler {
    from: u64,
}

impl RpcHandler {
    /// Simulated network: delay, loss (the caller sees its timeout), duplication.
    pub async fn request(&self, addr: SocketAddr, payload: RequestPayload, timeout: Duration) -> Result<RpcResponse> {
        tokio::sim::maybe_yield().await;
        let (handler, target, delay, drop_req, dup, drop_resp) = with(|c| {
            let t = c.nodes.iter().find(|(_, n)| n.addr == addr).map(|(id, n)| (*id, n.handler.clone()));
            let f = c.cfg.faults_on;
            let (target, handler) = match t {
                Some((id, h)) => (Some(id), h),
                None => (None, None),
            };
            (handler, target, if f { c.cfg.rpc_delay_ms } else { (0, 2) }, f && tokio::sim::chance(c.cfg.rpc_drop_p), f && tokio::sim::chance(c.cfg.rpc_dup_p), f && tokio::sim::chance(c.cfg.rpc_drop_p))
        });
        stat("rpc_requests");
        let Some(handler) = handler else {
            tokio::time::sleep(timeout).await;
            return Err(OctopiiError(format!("rpc timeout to {}", addr)));
        };
        let target = target.unwrap();
        if drop_req {
            stat("rpc_dropped");
            tokio::time::sleep(timeout).await;
            return Err(OctopiiError(format!("rpc timeout to {}", addr)));
        }
        let from = self.from;
        let _ = from;
        let fut = async move {
            tokio::time::sleep(rand_ms(delay)).await;
            if dup {
                stat("rpc_duplicated");
                let h2 = handler.clone();
                let p2 = payload.clone();
                let prev = tokio::sim::current_label();
                tokio::sim::set_label(target);
                tokio::spawn(async move {
                    tokio::time::sleep(rand_ms(delay)).await;
                    let _ = h2(RpcRequest { id: 0, payload: p2 }).await;
                });
                tokio::sim::set_label(prev);
            }
            // the handler runs as the target node
            let prev = tokio::sim::current_label();
            tokio::sim::set_label(target);
            let jh = tokio::spawn(async move { handler(RpcRequest { id: 0, payload }).await });
            tokio::sim::set_label(prev);
            let resp = jh.await.map_err(|e| OctopiiError(e.to_string()))?;
            tokio::time::sleep(rand_ms(delay)).await;
            Ok::<ResponsePayload, OctopiiError>(resp)
        };
        match tokio::time::timeout(timeout, fut).await {
            Ok(Ok(payload)) => {
                if drop_resp {
                    stat("rpc_response_dropped");
                    // the callee executed the request; the caller never learns
                    tokio::time::sleep(timeout).await;
                    return Err(OctopiiError(format!("rpc timeout to {}", addr)));
                }
                Ok(RpcResponse { id: 0, payload })
            }
            Ok(Err(e)) => Err(e),
            Err(_) => {
                stat("rpc_timeouts");
                Err(OctopiiError(format!("rpc timeout to {}", addr)))
            }
        }
    }
}

pub struct OctopiiNode {
    id: u64,
}

unsafe impl Send for OctopiiNode {}
unsafe impl Sync for OctopiiNode {}

impl OctopiiNode {
    /// Register a node of the simulated cluster (all nodes are voters).
    pub fn sim_new(id: u64, addr: SocketAddr, sm: Arc<dyn StateMachineTrait>) -> OctopiiNode {
        with(|c| {
            c.nodes.insert(id, NodeState { addr, sm, applied: 0, handler: None, peers: BTreeMap::new() });
            c.voters.insert(id);
            if c.leader.is_none() {
                c.leader = Some(id);
            }
        });
        OctopiiNode { id }
    }

    pub fn id(&self) -> u64 {
        self.id
    }

    pub async fn set_custom_rpc_handler<F>(&self, f: F)
    where
        F: Fn(RpcRequest) -> Pin<Box<dyn Future<Output = ResponsePayload>>> + 'static,
    {
        let id = self.id;
        with(|c| {
            if let Some(n) = c.nodes.get_mut(&id) {
                n.handler = Some(Rc::new(f));
            }
        });
    }

    pub async fn start(&self) -> Result<()> {
        Ok(())
    }

    pub async fn is_leader(&self) -> bool {
        tokio::sim::maybe_yield().await;
        with(|c| c.leader == Some(self.id))
    }

    pub fn raft_metrics(&self) -> RaftMetrics {
        with(|c| RaftMetrics {
            id: self.id,
            current_leader: c.leader,
            state: if c.leader == Some(self.id) { "Leader".into() } else { "Follower".into() },
            last_log_index: if c.log.is_empty() { None } else { Some(c.log.len() as u64) },
            membership_config: MembershipConfig { membership: Membership { configs: vec![c.voters.clone()] } },
        })
    }

    /// Commit `command` and apply it on this (leader) node. Success is reported only for a command
    /// that is committed and applied here; a reported failure may or may not have been committed.
    pub async fn propose(&self, command: Vec<u8>) -> Result<Bytes> {
        tokio::sim::maybe_yield().await;
        stat("proposals");
        let (is_leader, delay, fail, fail_commit, lchange) = with(|c| {
            let f = c.cfg.faults_on;
            (
                c.leader == Some(self.id),
                if f { c.cfg.propose_delay_ms } else { (1, 3) },
                f && tokio::sim::chance(c.cfg.propose_fail_p),
                tokio::sim::chance(c.cfg.fail_but_commit_p),
                f && tokio::sim::chance(c.cfg.leader_change_p),
            )
        });
        if !is_leader {
            return Err(OctopiiError("client_write: not leader".into()));
        }
        tokio::time::sleep(rand_ms(delay)).await;
        if with(|c| c.leader != Some(self.id)) {
            return Err(OctopiiError("client_write: leadership lost".into()));
        }
        if fail {
            stat("proposals_failed");
            if fail_commit {
                stat("proposals_failed_but_committed");
                with(|c| c.log.push(command));
            }
            if lchange {
                stat("leader_changes");
                with(|c| {
                    let ids: Vec<u64> = c.voters.iter().copied().collect();
                    let pos = ids.iter().position(|x| Some(*x) == c.leader).unwrap_or(0);
                    c.leader = Some(ids[(pos + 1) % ids.len()]);
                });
            }
            return Err(OctopiiError("client_write: proposal failed".into()));
        }
        let index = with(|c| {
            c.log.push(command);
            c.log.len() - 1
        });
        // the leader applies everything up to and including its own entry before answering
        let mut answer = None;
        loop {
            let applied = with(|c| c.nodes.get(&self.id).map(|n| n.applied).unwrap_or(0));
            if applied > index {
                break;
            }
            let was = applied;
            let r = apply_next(self.id);
            if was == index {
                answer = r;
            }
            if r_is_none(&answer) && was == index {
                break;
            }
        }
        match answer {
            Some(Ok(b)) => Ok(b),
            Some(Err(e)) => Err(OctopiiError(format!("client_write: state machine: {}", e))),
            // a concurrent apply task got there first; the command is applied
            None => Ok(Bytes::new()),
        }
    }

    pub fn rpc_handler(&self) -> Arc<RpcHandler> {
        Arc::new(RpcHandler { from: self.id })
    }

    pub async fn peer_addr_for(&self, node: u64) -> Option<SocketAddr> {
        with(|c| c.nodes.get(&self.id).and_then(|n| n.peers.get(&node).copied()))
    }

    pub async fn update_peer_addr(&self, node: u64, sock: SocketAddr) {
        with(|c| {
            if let Some(n) = c.nodes.get_mut(&self.id) {
                n.peers.insert(node, sock);
            }
        });
    }

    pub async fn add_learner(&self, _node: u64, _sock: SocketAddr) -> Result<()> {
        Ok(())
    }

    pub async fn is_learner_caught_up(&self, _node: u64) -> Result<bool> {
        Ok(true)
    }

    pub async fn promote_learner(&self, _node: u64) -> Result<()> {
        Ok(())
    }
}

fn r_is_none<T>(o: &Option<T>) -> bool {
    o.is_none()
}
