use std::future::Future;
use std::pin::Pin;
use std::task::{Context, Poll};

pub trait Stream {
    type Item;
    fn poll_next(self: Pin<&mut Self>, cx: &mut Context<'_>) -> Poll<Option<Self::Item>>;
}

pub struct TryNext<'a, S: ?Sized> {
    s: &'a mut S,
}

impl<'a, S, T, E> Future for TryNext<'a, S>
where
    S: Stream<Item = Result<T, E>> + Unpin + ?Sized,
{
    type Output = Result<Option<T>, E>;
    fn poll(mut self: Pin<&mut Self>, cx: &mut Context<'_>) -> Poll<Self::Output> {
        match Pin::new(&mut *self.s).poll_next(cx) {
            Poll::Ready(Some(Ok(v))) => Poll::Ready(Ok(Some(v))),
            Poll::Ready(Some(Err(e))) => Poll::Ready(Err(e)),
            Poll::Ready(None) => Poll::Ready(Ok(None)),
            Poll::Pending => Poll::Pending,
        }
    }
}

pub trait TryStreamExt: Stream {
    fn try_next<T, E>(&mut self) -> TryNext<'_, Self>
    where
        Self: Stream<Item = Result<T, E>> + Unpin,
    {
        TryNext { s: self }
    }
}
impl<S: Stream + ?Sized> TryStreamExt for S {}

pub mod stream {
    use super::*;
    pub struct Iter<I> {
        it: I,
    }
    impl<I: Iterator + Unpin> Stream for Iter<I> {
        type Item = I::Item;
        fn poll_next(mut self: Pin<&mut Self>, _cx: &mut Context<'_>) -> Poll<Option<I::Item>> {
            Poll::Ready(self.it.next())
        }
    }
    pub fn iter<I: IntoIterator>(i: I) -> Iter<I::IntoIter> {
        Iter { it: i.into_iter() }
    }
}
