macro_rules! err {
    ($n:ident) => {
        #[derive(Debug)]
        pub struct $n;
        impl std::fmt::Display for $n {
            fn fmt(&self, f: &mut std::fmt::Formatter<'_>) -> std::fmt::Result {
                write!(f, stringify!($n))
            }
        }
        impl std::error::Error for $n {}
    };
}
err!(ConnectionError);
err!(WriteError);
err!(ReadError);
