//! `bincode::{serialize, deserialize}` over serde_json. Decoding arbitrary bytes returns
//! `Err` and never panics.
use serde::{de::DeserializeOwned, Serialize};

#[derive(Debug)]
pub struct Error(String);

pub type Result<T> = std::result::Result<T, Error>;

impl std::fmt::Display for Error {
    fn fmt(&self, f: &mut std::fmt::Formatter<'_>) -> std::fmt::Result {
        write!(f, "{}", self.0)
    }
}

impl std::error::Error for Error {}

pub fn serialize<T: Serialize + ?Sized>(value: &T) -> Result<Vec<u8>> {
    serde_json::to_vec(value).map_err(|e| Error(e.to_string()))
}

pub fn deserialize<T: DeserializeOwned>(bytes: &[u8]) -> Result<T> {
    serde_json::from_slice(bytes).map_err(|e| Error(e.to_string()))
}
