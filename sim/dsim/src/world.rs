//! One simulated run: cluster set-up (mirrors distributed-walrus/src/main.rs `start_node`
//! without clap/ctrl-c/bootstrap sleeps), workloads, history, oracles.
use crate::bucket::Storage;
use crate::config::NodeConfig;
use crate::controller::{parse_wal_key, wal_key, NodeController};
use crate::metadata::{Metadata, MetadataCmd};
use crate::rpc::{InternalOp, InternalResp};
use octopii::rpc::{RequestPayload, ResponsePayload};
use octopii::{OctopiiNode, StateMachineTrait};
use serde::{Deserialize, Serialize};
use std::cell::RefCell;
use std::collections::{BTreeMap, BTreeSet};
use std::rc::Rc;
use std::sync::Arc;
use std::time::Duration;
use tokio::io::{AsyncReadExt, AsyncWriteExt};

#[derive(Serialize, Deserialize, Clone, Debug, Default)]
pub struct Finding {
    pub rule: String,
    pub detail: String,
    pub facts: BTreeMap<String, serde_json::Value>,
}

#[derive(Serialize, Deserialize, Clone, Debug, Default)]
pub struct ChildResult {
    pub id: String,
    pub seed: u64,
    pub scale: u64,
    pub findings: Vec<Finding>,
    pub stats: BTreeMap<String, u64>,
    pub nontrivial: bool,
    pub key: u64,
    pub digest: u64,
    pub sample: serde_json::Value,
    pub sim_ms: u64,
    pub harness_error: Option<String>,
}

#[derive(Clone, Debug, Serialize)]
pub struct HEv {
    pub step: u64,
    pub kind: String, // inv | ret | write | apply
    pub client: u32,
    pub node: u64,
    pub op: String, // PUT | GET | REGISTER | raw
    pub topic: String,
    pub payload: String,
    pub resp: String,
    pub opid: u64,
}

thread_local! {
    static HISTORY: RefCell<Vec<HEv>> = const { RefCell::new(Vec::new()) };
    static METAS: RefCell<BTreeMap<u64, Arc<Metadata>>> = const { RefCell::new(BTreeMap::new()) };
    static FINDINGS: RefCell<Vec<Finding>> = const { RefCell::new(Vec::new()) };
    static DONE: RefCell<bool> = const { RefCell::new(false) };
}

fn hist(e: HEv) {
    HISTORY.with(|h| h.borrow_mut().push(e));
}

fn finding(rule: &str, detail: String, facts: &[(&str, serde_json::Value)]) {
    FINDINGS.with(|f| {
        let mut f = f.borrow_mut();
        if f.iter().filter(|x| x.rule == rule).count() < 3 {
            f.push(Finding { rule: rule.into(), detail, facts: facts.iter().map(|(k, v)| (k.to_string(), v.clone())).collect() });
        }
    });
}

// ---------------------------------------------------------------------------
// Engine hooks: background threads of the engine are parked for the whole run (a legal
// schedule in which the flusher is arbitrarily slow); the engine reads the simulator's clock;
// every append is reported with the node label of the task that performs it.
// ---------------------------------------------------------------------------
struct DHooks;

impl walrus_rust::wal::verif::Hooks for DHooks {
    fn sched(&self, _s: walrus_rust::wal::verif::Site) {}
    fn gate(&self, _s: walrus_rust::wal::verif::Site, _r: &dyn Fn() -> bool) {}
    fn spin(&self, _s: walrus_rust::wal::verif::Site) {}
    fn spawn_register(&self, _n: &str) -> u64 {
        1
    }
    fn thread_start(&self, _t: u64) {
        loop {
            std::thread::park();
        }
    }
    fn thread_exit(&self) {}
    fn sleep(&self, d: Duration) {
        std::thread::sleep(d);
    }
    fn timed_wait(&self, _s: walrus_rust::wal::verif::Site, d: Duration, r: &dyn Fn() -> bool) -> bool {
        std::thread::sleep(d);
        r()
    }
    fn now_unix_nanos(&self) -> Option<u128> {
        if IS_MAIN.with(|m| *m.borrow()) {
            Some(tokio::sim::now_ns())
        } else {
            None
        }
    }
    fn io(&self, _ev: &walrus_rust::wal::verif::IoEvent<'_>) -> walrus_rust::wal::verif::IoVerdict {
        walrus_rust::wal::verif::IoVerdict::Proceed
    }
    fn after_store(&self) {}
    fn uring_submit(&self, _w: &[walrus_rust::wal::verif::UringWrite]) -> walrus_rust::wal::verif::UringVerdict {
        walrus_rust::wal::verif::UringVerdict::Proceed
    }
    fn uring_cqe(&self, _w: &walrus_rust::wal::verif::UringWrite, res: i32) -> i32 {
        res
    }
    fn probe(&self, _n: &'static str) {}
    fn buggify(&self, _n: &'static str) -> bool {
        false
    }
    fn api(&self, op: &'static str, topic: &str, n: usize) {
        if !IS_MAIN.with(|m| *m.borrow()) {
            return;
        }
        let node = tokio::sim::current_label();
        let step = tokio::sim::step();
        if op.starts_with("lease_") {
            lease_event(node, op, topic, step);
            return;
        }
        hist(HEv { step, kind: "write".into(), client: 0, node, op: op.into(), topic: topic.into(), payload: String::new(), resp: String::new(), opid: n as u64 });
        check_write(node, topic, step);
    }
}

thread_local! {
    static IS_MAIN: RefCell<bool> = const { RefCell::new(false) };
}

// ---------------------------------------------------------------------------
// Lease provenance (facts for C23 findings only; nothing here raises a finding by itself).
// The guarded hook lines in distributed-walrus report: "lease_snapshot" (NodeController::update_leases has just
// computed the expected lease set from the node's applied metadata), "lease_installed" (Storage::update_leases has
// made the cached lease set equal to what it was given), "lease_ok" (Storage::ensure_lease accepted a write).
// ---------------------------------------------------------------------------
#[derive(Default, Clone)]
struct LeaseNode {
    /// per task: the lease set its last snapshot computed, and whether that equalled the applied metadata
    snap_by_task: BTreeMap<u64, (BTreeSet<String>, bool)>,
    installed: BTreeSet<String>,
    /// keys in `installed` that the snapshot it was installed from did not contain
    installed_extra: BTreeSet<String>,
    installed_snapshot_ok: bool,
    installed_any: bool,
    /// accepted lease checks not yet matched with a write: key -> labels in order
    pending_ok: BTreeMap<String, std::collections::VecDeque<&'static str>>,
    /// per task: lease snapshots it has taken since its last accepted lease check. Every request that writes
    /// refreshes the leases itself first (forward_append), so an accepted check of a task that has not taken a
    /// snapshot since its previous accepted check relied on somebody else's refresh
    snaps_since_ok: BTreeMap<u64, u32>,
}

thread_local! {
    /// per topic: engine writes whose lease check was anything but "lease_held"
    static IRREGULAR_LEASE_WRITES: RefCell<BTreeMap<String, u64>> = const { RefCell::new(BTreeMap::new()) };
    static LEASES: RefCell<BTreeMap<u64, LeaseNode>> = const { RefCell::new(BTreeMap::new()) };
    static LEASE_TOPICS: RefCell<BTreeSet<String>> = const { RefCell::new(BTreeSet::new()) };
}

fn lease_event(node: u64, op: &str, arg: &str, _step: u64) {
    let task = tokio::sim::current_task();
    let set = |a: &str| -> BTreeSet<String> { a.split('\n').filter(|s| !s.is_empty()).map(|s| s.to_string()).collect() };
    match op {
        "lease_snapshot" => {
            let got = set(arg);
            // what the node's applied metadata says right now
            let meta = METAS.with(|m| m.borrow().get(&node).cloned());
            let mut ok = true;
            if let Some(meta) = meta {
                let mut want = BTreeSet::new();
                let mut topics: BTreeSet<String> = LEASE_TOPICS.with(|t| t.borrow().clone());
                for k in got.iter() {
                    if let Some((t, _)) = parse_wal_key(k) {
                        topics.insert(t);
                    }
                }
                for t in topics {
                    if let Some(st) = meta.get_topic_state(&t) {
                        if st.leader_node == node {
                            want.insert(wal_key(&t, st.current_segment));
                        }
                    }
                }
                ok = want == got;
            }
            LEASES.with(|l| {
                let mut l = l.borrow_mut();
                let n = l.entry(node).or_default();
                n.snap_by_task.insert(task, (got, ok));
                *n.snaps_since_ok.entry(task).or_insert(0) += 1;
            });
        }
        "lease_installed" => {
            let got = set(arg);
            LEASES.with(|l| {
                let mut l = l.borrow_mut();
                let n = l.entry(node).or_default();
                let (snap, ok) = n.snap_by_task.get(&task).cloned().unwrap_or((got.clone(), true));
                n.installed_extra = got.difference(&snap).cloned().collect();
                n.installed = got;
                n.installed_snapshot_ok = ok;
                n.installed_any = true;
            });
        }
        "lease_ok" => {
            LEASES.with(|l| {
                let mut l = l.borrow_mut();
                let n = l.entry(node).or_default();
                let refreshed_by_request = n.snaps_since_ok.insert(task, 0).unwrap_or(0) > 0;
                let label = if !n.installed.contains(arg) {
                    "accepted_without_lease"
                } else if n.installed_extra.contains(arg) {
                    "lease_kept_by_install"
                } else if !n.installed_snapshot_ok {
                    "lease_from_wrong_snapshot"
                } else if !refreshed_by_request {
                    "lease_not_refreshed_by_request"
                } else {
                    "lease_held"
                };
                n.pending_ok.entry(arg.to_string()).or_default().push_back(label);
            });
        }
        _ => {}
    }
}

/// The lease check that let this write through: "lease_held" (the cached lease set legitimately contained the key:
/// it came from a snapshot that matched the node's applied metadata when it was taken), or what was wrong with it.
fn lease_label_for_write(node: u64, wal_key: &str) -> &'static str {
    LEASES.with(|l| {
        let mut l = l.borrow_mut();
        let n = l.entry(node).or_default();
        match n.pending_ok.get_mut(wal_key) {
            Some(q) if !q.is_empty() => {
                // concurrent appends to one key are serialised by the per-key mutex in an order that need not be the
                // order of their lease checks: report the worst pending label, consume the oldest
                let worst = q.iter().copied().find(|x| *x != "lease_held");
                let first = q.pop_front().unwrap();
                worst.unwrap_or(first)
            }
            _ => "no_lease_check",
        }
    })
}

/// C23: at the instant a node writes into a segment, that node's applied metadata must say the
/// segment is open and owned by this node.
fn check_write(node: u64, wal_key: &str, step: u64) {
    let Some((topic, segment)) = parse_wal_key(wal_key) else { return };
    let meta = METAS.with(|m| m.borrow().get(&node).cloned());
    let Some(meta) = meta else { return };
    tokio::sim::stat("c23_writes_checked", 1);
    let lease = lease_label_for_write(node, wal_key);
    tokio::sim::stat(&format!("c23_lease_{}", lease), 1);
    if lease != "lease_held" {
        IRREGULAR_LEASE_WRITES.with(|w| *w.borrow_mut().entry(topic.clone()).or_insert(0) += 1);
    }
    if let Some(st) = meta.get_topic_state(&topic) {
        if st.current_segment > segment {
            finding(
                "c23.write_after_seal_applied",
                format!("step {}: node {} writes into {} although it has already applied the rollover that sealed segment {} (its metadata says current segment {}); lease check: {}", step, node, wal_key, segment, st.current_segment, lease),
                &[("segments_behind", serde_json::json!(st.current_segment - segment)), ("lease_check", serde_json::json!(lease))],
            );
        }
        let owner = meta.segment_leader(&topic, segment);
        if st.current_segment >= segment && owner.is_some() && owner != Some(node) {
            finding(
                "c23.write_into_foreign_segment",
                format!("step {}: node {} writes into {} which its applied metadata assigns to node {:?}; lease check: {}", step, node, wal_key, owner, lease),
                &[("lease_check", serde_json::json!(lease))],
            );
        }
    }
}

// ---------------------------------------------------------------------------
// Cluster
// ---------------------------------------------------------------------------
pub struct Node {
    pub id: u64,
    pub controller: Arc<NodeController>,
    pub metadata: Arc<Metadata>,
    pub client_addr: String,
    pub raft_addr: String,
}

async fn start_node(id: u64, root: &std::path::Path) -> anyhow::Result<Node> {
    let cfg = NodeConfig {
        node_id: id,
        data_root: root.to_path_buf(),
        join_addr: None,
        initial_peers: vec![],
        raft_port: 6000 + id as u16,
        raft_host: "10.0.0.1".into(),
        raft_advertise_host: None,
        log_file: None,
        client_port: 8000 + id as u16,
        client_host: "10.0.0.1".into(),
    };
    let data_path = cfg.data_wal_dir();
    std::fs::create_dir_all(&data_path)?;
    tokio::sim::set_label(id);
    let bucket = Arc::new(Storage::new(data_path).await?);
    let metadata = Arc::new(Metadata::new());
    METAS.with(|m| m.borrow_mut().insert(id, metadata.clone()));
    let raft_addr = format!("10.0.0.{}:{}", id, 6000 + id);
    let sock: std::net::SocketAddr = raft_addr.parse()?;
    let raft = Arc::new(OctopiiNode::sim_new(id, sock, metadata.clone() as Arc<dyn StateMachineTrait>));
    let controller = Arc::new(NodeController {
        node_id: id,
        bucket,
        metadata: metadata.clone(),
        raft: raft.clone(),
        offsets: Arc::new(tokio::sync::RwLock::new(std::collections::HashMap::new())),
        read_cursors: Arc::new(tokio::sync::Mutex::new(std::collections::HashMap::new())),
        test_fail_forward_read: std::sync::atomic::AtomicBool::new(false),
        test_fail_monitor: std::sync::atomic::AtomicBool::new(false),
        test_fail_dir_size: std::sync::atomic::AtomicBool::new(false),
    });
    // same handler as main.rs installs
    let controller_rpc = controller.clone();
    raft.set_custom_rpc_handler(move |req| {
        let controller_rpc = controller_rpc.clone();
        Box::pin(async move {
            if let RequestPayload::Custom { operation, data } = req.payload {
                if operation == "Forward" {
                    match bincode::deserialize::<InternalOp>(&data) {
                        Ok(op) => {
                            let resp = controller_rpc.handle_rpc(op).await;
                            let success = !matches!(resp, InternalResp::Error(_));
                            let bytes = bincode::serialize(&resp).unwrap_or_default();
                            return ResponsePayload::CustomResponse { success, data: bytes.into() };
                        }
                        Err(e) => {
                            return ResponsePayload::Error { message: format!("decode error: {e}") };
                        }
                    }
                }
            }
            ResponsePayload::Error { message: "unsupported request".into() }
        })
    })
    .await;
    raft.start().await.map_err(|e| anyhow::anyhow!(e.to_string()))?;
    let client_addr = format!("{}:{}", cfg.client_host, cfg.client_port);
    let n = Node { id, controller: controller.clone(), metadata, client_addr: client_addr.clone(), raft_addr };
    // background activities of a node, labelled with its id
    octopii::sim::spawn_apply_loop(id);
    let lc = controller.clone();
    tokio::spawn(async move { lc.run_lease_update_loop().await });
    let mc = controller.clone();
    let mcfg = cfg.clone();
    tokio::spawn(async move { crate::monitor::Monitor::new(mc, mcfg).run().await });
    let cc = controller.clone();
    tokio::spawn(async move {
        let _ = crate::client::start_client_listener(cc, client_addr).await;
    });
    tokio::sim::set_label(0);
    Ok(n)
}

// ---------------------------------------------------------------------------
// Client side of the text protocol
// ---------------------------------------------------------------------------
pub struct Conn {
    s: tokio::net::TcpStream,
}

impl Conn {
    pub fn connect(addr: &str) -> Option<Conn> {
        tokio::net::sim_connect(addr).ok().map(|s| Conn { s })
    }
    pub async fn call(&mut self, line: &str) -> Option<String> {
        let bytes = line.as_bytes();
        let mut frame = (bytes.len() as u32).to_le_bytes().to_vec();
        frame.extend_from_slice(bytes);
        self.s.write_all(&frame).await.ok()?;
        let mut len = [0u8; 4];
        self.s.read_exact(&mut len).await.ok()?;
        let n = u32::from_le_bytes(len) as usize;
        let mut buf = vec![0u8; n];
        self.s.read_exact(&mut buf).await.ok()?;
        Some(String::from_utf8_lossy(&buf).into_owned())
    }
}

struct Rng(u64);
impl Rng {
    fn next(&mut self) -> u64 {
        self.0 = self.0.wrapping_add(0x9E3779B97F4A7C15);
        let mut z = self.0;
        z = (z ^ (z >> 30)).wrapping_mul(0xBF58476D1CE4E5B9);
        z = (z ^ (z >> 27)).wrapping_mul(0x94D049BB133111EB);
        z ^ (z >> 31)
    }
    fn below(&mut self, n: u64) -> u64 {
        if n == 0 {
            0
        } else {
            self.next() % n
        }
    }
    fn range(&mut self, lo: u64, hi: u64) -> u64 {
        lo + self.below(hi - lo + 1)
    }
    fn chance(&mut self, p: f64) -> bool {
        ((self.next() >> 11) as f64) * (1.0 / ((1u64 << 53) as f64)) < p
    }
    fn pick<'a, T>(&mut self, v: &'a [T]) -> &'a T {
        &v[self.below(v.len() as u64) as usize]
    }
}

#[derive(Clone, Debug, Serialize)]
pub struct PlaneCfg {
    pub nodes: u64,
    pub topics: Vec<String>,
    pub threshold: u64,
    pub monitor_ms: u64,
    pub clients: u64,
    pub ops_per_client: u64,
    pub put_ratio: f64,
    pub faults: octopii_cfg::Cfg,
    pub exec: ExecCfg,
}

#[derive(Clone, Debug, Serialize)]
pub struct ExecCfg {
    pub p_yield: f64,
    pub ns_per_step: u64,
    pub policy: String,
}

pub mod octopii_cfg {
    use serde::Serialize;
    #[derive(Clone, Debug, Serialize)]
    pub struct Cfg {
        pub propose_delay_ms: (u64, u64),
        pub propose_fail_p: f64,
        pub apply_lag_ms: (u64, u64),
        pub rpc_delay_ms: (u64, u64),
        pub rpc_drop_p: f64,
        pub rpc_dup_p: f64,
        pub leader_change_p: f64,
        pub snapshot_catchup_p: f64,
    }
}

fn gen_plane(seed: u64, scale: u64) -> PlaneCfg {
    let mut r = Rng(crate::mix(seed, 0x22));
    let nodes = r.range(1, 3);
    let n_topics = r.range(1, 2);
    let topics: Vec<String> = ["alpha", "b_s_1"].iter().take(n_topics as usize).map(|s| s.to_string()).collect();
    let calm = r.chance(0.3);
    let faults = octopii_cfg::Cfg {
        propose_delay_ms: (1, *r.pick(&[5u64, 50, 300])),
        propose_fail_p: if calm { 0.0 } else { *r.pick(&[0.0, 0.02, 0.1]) },
        apply_lag_ms: (0, *r.pick(&[5u64, 100, 2000])),
        rpc_delay_ms: (0, *r.pick(&[5u64, 50, 500])),
        rpc_drop_p: if calm { 0.0 } else { *r.pick(&[0.0, 0.0, 0.02]) },
        // the transport is request/response over one connection: duplicates are not produced (and the
        // property does not quantify over them)
        rpc_dup_p: 0.0,
        leader_change_p: 0.0,
        snapshot_catchup_p: *r.pick(&[0.0, 0.2]),
    };
    PlaneCfg {
        nodes,
        topics,
        threshold: r.range(1, 4),
        monitor_ms: *r.pick(&[10u64, 100, 1000, 10_000]),
        clients: r.range(2, 6).min(2 + scale / 20),
        ops_per_client: (r.range(4, 24) * scale / 100).max(2),
        put_ratio: *r.pick(&[0.5, 0.6, 0.8]),
        faults,
        exec: ExecCfg { p_yield: *r.pick(&[0.1, 0.3, 0.6]), ns_per_step: *r.pick(&[2_000u64, 20_000, 200_000]), policy: r.pick(&["random", "random", "lifo_bias"]).to_string() },
    }
}

fn to_cluster_cfg(f: &octopii_cfg::Cfg) -> octopii::ClusterCfg {
    octopii::ClusterCfg {
        propose_delay_ms: f.propose_delay_ms,
        propose_fail_p: f.propose_fail_p,
        fail_but_commit_p: 0.5,
        apply_lag_ms: f.apply_lag_ms,
        rpc_delay_ms: f.rpc_delay_ms,
        rpc_drop_p: f.rpc_drop_p,
        rpc_dup_p: f.rpc_dup_p,
        leader_change_p: f.leader_change_p,
        snapshot_catchup_p: f.snapshot_catchup_p,
        faults_on: false,
    }
}

async fn boot(nodes: u64, root: &std::path::Path) -> anyhow::Result<Vec<Rc<Node>>> {
    let mut v = Vec::new();
    for id in 1..=nodes {
        v.push(Rc::new(start_node(id, root).await?));
    }
    // register every node's address through the leader (main.rs: node 1 registers itself, joiners via JoinCluster)
    for n in v.iter() {
        v[0].controller.upsert_node(n.id, n.raft_addr.clone()).await?;
    }
    // wait until every replica has applied the registrations
    for _ in 0..2000 {
        if octopii::sim::all_caught_up() {
            break;
        }
        tokio::time::sleep(Duration::from_millis(5)).await;
    }
    for n in v.iter() {
        tokio::sim::set_label(n.id);
        n.controller.update_leases().await;
    }
    tokio::sim::set_label(0);
    Ok(v)
}

// ---------------------------------------------------------------------------
// plane scenario: C22 + C23
// ---------------------------------------------------------------------------
async fn plane_world(cfg: PlaneCfg, root: std::path::PathBuf) {
    let nodes = match boot(cfg.nodes, &root).await {
        Ok(n) => n,
        Err(e) => {
            finding("harness.boot", format!("boot failed: {e}"), &[]);
            DONE.with(|d| *d.borrow_mut() = true);
            return;
        }
    };
    // register topics
    {
        let mut c = Conn::connect(&nodes[0].client_addr).expect("connect");
        for t in cfg.topics.iter() {
            let r = c.call(&format!("REGISTER {}", t)).await;
            if r.as_deref() != Some("OK") {
                finding("harness.register", format!("REGISTER {} -> {:?}", t, r), &[]);
            }
        }
    }
    for _ in 0..2000 {
        if octopii::sim::all_caught_up() {
            break;
        }
        tokio::time::sleep(Duration::from_millis(5)).await;
    }
    for n in nodes.iter() {
        tokio::sim::set_label(n.id);
        n.controller.update_leases().await;
    }
    tokio::sim::set_label(0);
    octopii::sim::set_faults(true);
    // client tasks
    let remaining = Rc::new(RefCell::new(cfg.clients));
    let opid = Rc::new(RefCell::new(0u64));
    for c in 0..cfg.clients {
        let nodes2 = nodes.clone();
        let cfg2 = cfg.clone();
        let rem = remaining.clone();
        let opid = opid.clone();
        tokio::spawn(async move {
            let mut r = Rng(crate::mix(c + 1, cfg2.ops_per_client ^ 0xC11E));
            let node = &nodes2[r.below(nodes2.len() as u64) as usize];
            let mut conn = match Conn::connect(&node.client_addr) {
                Some(c) => c,
                None => {
                    *rem.borrow_mut() -= 1;
                    return;
                }
            };
            for k in 0..cfg2.ops_per_client {
                let topic = r.pick(&cfg2.topics).clone();
                let id = {
                    let mut o = opid.borrow_mut();
                    *o += 1;
                    *o
                };
                if r.chance(cfg2.put_ratio) {
                    let payload = format!("c{}-{}-{}", c, k, "x".repeat(r.below(20) as usize));
                    hist(HEv { step: tokio::sim::step(), kind: "inv".into(), client: c as u32, node: node.id, op: "PUT".into(), topic: topic.clone(), payload: payload.clone(), resp: String::new(), opid: id });
                    let resp = conn.call(&format!("PUT {} {}", topic, payload)).await;
                    hist(HEv { step: tokio::sim::step(), kind: "ret".into(), client: c as u32, node: node.id, op: "PUT".into(), topic, payload, resp: resp.clone().unwrap_or_else(|| "<closed>".into()), opid: id });
                    if resp.is_none() {
                        break;
                    }
                } else {
                    hist(HEv { step: tokio::sim::step(), kind: "inv".into(), client: c as u32, node: node.id, op: "GET".into(), topic: topic.clone(), payload: String::new(), resp: String::new(), opid: id });
                    let resp = conn.call(&format!("GET {}", topic)).await;
                    hist(HEv { step: tokio::sim::step(), kind: "ret".into(), client: c as u32, node: node.id, op: "GET".into(), topic, payload: String::new(), resp: resp.clone().unwrap_or_else(|| "<closed>".into()), opid: id });
                    if resp.is_none() {
                        break;
                    }
                }
                if r.chance(0.3) {
                    tokio::time::sleep(Duration::from_millis(r.range(1, 200))).await;
                }
            }
            *rem.borrow_mut() -= 1;
        });
    }
    // wait for the clients (bounded in virtual time)
    let t_end = tokio::sim::now_ns() + 600_000_000_000u128;
    while *remaining.borrow() > 0 && tokio::sim::now_ns() < t_end {
        tokio::time::sleep(Duration::from_millis(50)).await;
    }
    if *remaining.borrow() > 0 {
        finding("c22.client_stuck", format!("{} client tasks did not finish within 600 virtual seconds", remaining.borrow()), &[]);
    }
    // faults stop; the cluster settles
    octopii::sim::set_faults(false);
    for _ in 0..4000 {
        if octopii::sim::all_caught_up() {
            break;
        }
        tokio::time::sleep(Duration::from_millis(5)).await;
    }
    tokio::time::sleep(Duration::from_millis(500)).await;
    hist(HEv { step: tokio::sim::step(), kind: "drain_start".into(), client: 0, node: 0, op: String::new(), topic: String::new(), payload: String::new(), resp: String::new(), opid: 0 });
    // drain: GETs round-robin on all nodes until every node answered EMPTY three times in a row,
    // at least three lease periods apart (bounded: 120 virtual seconds)
    let drain_end = tokio::sim::now_ns() + 120_000_000_000u128;
    for topic in cfg.topics.iter() {
        let mut empties: BTreeMap<u64, u32> = BTreeMap::new();
        let mut conns: Vec<(u64, Conn)> = nodes.iter().filter_map(|n| Conn::connect(&n.client_addr).map(|c| (n.id, c))).collect();
        'outer: while tokio::sim::now_ns() < drain_end {
            for (nid, conn) in conns.iter_mut() {
                let id = {
                    let mut o = opid.borrow_mut();
                    *o += 1;
                    *o
                };
                hist(HEv { step: tokio::sim::step(), kind: "inv".into(), client: 999, node: *nid, op: "GET".into(), topic: topic.clone(), payload: String::new(), resp: String::new(), opid: id });
                let resp = conn.call(&format!("GET {}", topic)).await.unwrap_or_else(|| "<closed>".into());
                hist(HEv { step: tokio::sim::step(), kind: "ret".into(), client: 999, node: *nid, op: "GET".into(), topic: topic.clone(), payload: String::new(), resp: resp.clone(), opid: id });
                if resp == "EMPTY" {
                    *empties.entry(*nid).or_insert(0) += 1;
                } else {
                    empties.clear();
                }
            }
            if conns.iter().all(|(nid, _)| empties.get(nid).copied().unwrap_or(0) >= 3) {
                break 'outer;
            }
            if empties.values().any(|v| *v > 0) {
                tokio::time::sleep(Duration::from_millis(350)).await;
            }
        }
    }
    hist(HEv { step: tokio::sim::step(), kind: "drain_end".into(), client: 0, node: 0, op: String::new(), topic: String::new(), payload: String::new(), resp: String::new(), opid: 0 });
    DONE.with(|d| *d.borrow_mut() = true);
}

/// C22 oracle over the recorded history.
fn judge_c22() {
    let h: Vec<HEv> = HISTORY.with(|h| h.borrow().clone());
    #[derive(Clone)]
    struct Put {
        client: u32,
        inv: u64,
        ret: u64,
        acked: bool,
        topic: String,
    }
    struct Get {
        inv: u64,
        ret: u64,
        resp: String,
        node: u64,
        opid: u64,
    }
    let mut puts: BTreeMap<String, Put> = BTreeMap::new();
    let mut gets: Vec<(String, Get)> = Vec::new();
    let mut inv: BTreeMap<u64, &HEv> = BTreeMap::new();
    for e in h.iter() {
        if e.kind == "inv" {
            inv.insert(e.opid, e);
        } else if e.kind == "ret" {
            let Some(i) = inv.get(&e.opid) else { continue };
            if e.op == "PUT" {
                puts.insert(e.payload.clone(), Put { client: e.client, inv: i.step, ret: e.step, acked: e.resp == "OK", topic: e.topic.clone() });
            } else if e.op == "GET" {
                gets.push((e.topic.clone(), Get { inv: i.step, ret: e.step, resp: e.resp.clone(), node: e.node, opid: e.opid }));
            }
        }
    }
    // PUTs invoked but never answered are unacknowledged
    for e in h.iter() {
        if e.kind == "inv" && e.op == "PUT" && !puts.contains_key(&e.payload) {
            puts.insert(e.payload.clone(), Put { client: e.client, inv: e.step, ret: u64::MAX, acked: false, topic: e.topic.clone() });
        }
    }
    let drain_complete = h.iter().any(|e| e.kind == "drain_end");
    let topics: BTreeSet<String> = puts.values().map(|p| p.topic.clone()).chain(gets.iter().map(|g| g.0.clone())).collect();
    for topic in topics {
        // facts about this topic's segments for fingerprints: engine writes per segment (history)
        // versus the sealed counts in the metadata of any node at the end of the run
        let mut writes_per_seg: BTreeMap<u64, u64> = BTreeMap::new();
        for e in h.iter() {
            if e.kind == "write" {
                if let Some((t, seg)) = parse_wal_key(&e.topic) {
                    if t == topic {
                        *writes_per_seg.entry(seg).or_insert(0) += e.opid.max(1);
                    }
                }
            }
        }
        let meta = METAS.with(|m| m.borrow().values().next().cloned());
        let mut beyond = false;
        let mut mismatch = false;
        if let Some(meta) = meta.as_ref() {
            if let Some(st) = meta.get_topic_state(&topic) {
                for (seg, count) in st.sealed_segments.iter() {
                    let w = writes_per_seg.get(seg).copied().unwrap_or(0);
                    if w > *count {
                        beyond = true;
                    }
                    if w != *count {
                        mismatch = true;
                    }
                }
            }
        }
        let before = FINDINGS.with(|f| f.borrow().len());
        // delivery of each payload
        let mut delivered: BTreeMap<String, Vec<&Get>> = BTreeMap::new();
        for (t, g) in gets.iter() {
            if *t != topic {
                continue;
            }
            if let Some(p) = g.resp.strip_prefix("OK ") {
                delivered.entry(p.to_string()).or_default().push(g);
            } else if g.resp.starts_with("ERR") {
                tokio::sim::stat("get_errors", 1);
            }
        }
        for (p, gs) in delivered.iter() {
            if gs.len() > 1 {
                finding(
                    "c22.delivered_twice",
                    format!("payload {:?} of topic {} was returned by {} GETs (ops {:?} on nodes {:?})", p, topic, gs.len(), gs.iter().map(|g| g.opid).collect::<Vec<_>>(), gs.iter().map(|g| g.node).collect::<Vec<_>>()),
                    &[("acked", serde_json::json!(puts.get(p).map(|x| x.acked).unwrap_or(false)))],
                );
            }
            if !puts.contains_key(p) {
                finding("c22.foreign_payload", format!("GET returned {:?} which no client PUT to {}", p, topic), &[]);
            } else if puts[p].topic != topic {
                finding("c22.foreign_payload", format!("GET on {} returned {:?} which was PUT to {}", topic, p, puts[p].topic), &[]);
            }
        }
        // every acknowledged PUT delivered by the end of the drain
        if drain_complete {
            let lost: Vec<&String> = puts.iter().filter(|(p, x)| x.acked && x.topic == topic && !delivered.contains_key(*p)).map(|(p, _)| p).collect();
            // a GET that failed (e.g. its forwarded read timed out at the caller) may or may not have
            // consumed one entry on the owning node: that many payloads are in doubt, not lost
            let in_doubt = gets.iter().filter(|(t, g)| *t == topic && g.resp.starts_with("ERR")).count();
            if !lost.is_empty() && lost.len() <= in_doubt {
                tokio::sim::stat("payloads_in_doubt_after_failed_get", lost.len() as u64);
            }
            if lost.len() > in_doubt {
                finding(
                    "c22.acked_put_never_delivered",
                    format!("{} acknowledged PUTs of topic {} were never returned by any GET although the drain ended with EMPTY on every node (e.g. {:?})", lost.len(), topic, &lost[..lost.len().min(3)]),
                    &[("lost", serde_json::json!(lost.len()))],
                );
            }
        }
        // order for each sequential producer: a acked before b was invoked => GET(b) must not have
        // returned before GET(a) was invoked
        let mut by_client: BTreeMap<u32, Vec<(&String, &Put)>> = BTreeMap::new();
        for (p, x) in puts.iter() {
            if x.acked && x.topic == topic {
                by_client.entry(x.client).or_default().push((p, x));
            }
        }
        'ord: for (_c, list) in by_client.iter_mut() {
            list.sort_by_key(|(_, x)| x.inv);
            for i in 0..list.len() {
                for j in i + 1..list.len() {
                    let (a, b) = (list[i], list[j]);
                    if a.1.ret < b.1.inv {
                        if let (Some(ga), Some(gb)) = (delivered.get(a.0).and_then(|v| v.first()), delivered.get(b.0).and_then(|v| v.first())) {
                            if gb.ret < ga.inv {
                                finding(
                                    "c22.order",
                                    format!("client {} PUT {:?} (acked) before {:?}, but the GET returning the later one (op {}) completed before the GET returning the earlier one (op {}) was invoked", a.1.client, a.0, b.0, gb.opid, ga.opid),
                                    &[],
                                );
                                break 'ord;
                            }
                        }
                    }
                }
            }
        }
        // EMPTY only when every acknowledged PUT has already been returned
        for (t, g) in gets.iter() {
            if *t != topic || g.resp != "EMPTY" {
                continue;
            }
            let pending: Vec<&String> = puts
                .iter()
                .filter(|(p, x)| {
                    x.acked
                        && x.topic == topic
                        && x.ret < g.inv
                        && match delivered.get(*p).and_then(|v| v.first()) {
                            // delivered only by a GET that was invoked after this EMPTY was returned (or never)
                            Some(d) => d.inv > g.ret,
                            None => true,
                        }
                })
                .map(|(p, _)| p)
                .collect();
            let in_doubt = gets.iter().filter(|(t, x)| *t == topic && x.resp.starts_with("ERR") && x.inv < g.ret).count();
            if pending.len() > in_doubt {
                // had the answering node, when it answered, applied fewer committed rollovers of this
                // topic than some node had applied when the GET was invoked? (stale follower metadata)
                let rollovers_applied = |node: Option<u64>, upto: u64| -> BTreeMap<u64, usize> {
                    let mut m: BTreeMap<u64, usize> = BTreeMap::new();
                    for a in octopii::sim::applies() {
                        if !a.ok || a.step > upto || node.map(|n| n != a.node).unwrap_or(false) {
                            continue;
                        }
                        let cmd = octopii::sim::committed(a.index);
                        let is_rollover_of_topic = serde_json::from_slice::<serde_json::Value>(&cmd)
                            .ok()
                            .and_then(|v| v.get("RolloverTopic").and_then(|r| r.get("name")).and_then(|n| n.as_str()).map(|n| n == topic))
                            .unwrap_or(false);
                        if is_rollover_of_topic {
                            *m.entry(a.node).or_insert(0) += 1;
                        }
                    }
                    m
                };
                let mine = rollovers_applied(Some(g.node), g.ret).get(&g.node).copied().unwrap_or(0);
                let best_elsewhere = rollovers_applied(None, g.inv).values().copied().max().unwrap_or(0);
                let behind = mine < best_elsewhere;
                finding(
                    "c22.empty_with_pending",
                    format!("GET op {} on node {} answered EMPTY for {} while {} acknowledged PUTs (e.g. {:?}) had been acknowledged before it was invoked and were not yet delivered", g.opid, g.node, topic, pending.len(), pending[0]),
                    &[
                        ("pending", serde_json::json!(pending.len())),
                        ("during_drain", serde_json::json!(h.iter().any(|e| e.kind == "drain_start" && e.step < g.inv))),
                        ("answering_node_behind_on_rollovers", serde_json::json!(behind)),
                    ],
                );
                break;
            }
        }
        FINDINGS.with(|f| {
            let mut f = f.borrow_mut();
            for x in f.iter_mut().skip(before) {
                if x.rule.starts_with("c22.") {
                    x.facts.insert("writes_beyond_sealed_count".into(), serde_json::json!(beyond));
                    x.facts.insert("sealed_count_differs_from_writes".into(), serde_json::json!(mismatch));
                    // did any write to this topic get through a lease check other than the regular one?
                    let irregular = IRREGULAR_LEASE_WRITES.with(|w| w.borrow().get(&topic).copied().unwrap_or(0));
                    x.facts.insert("writes_on_irregular_lease".into(), serde_json::json!(irregular > 0));
                }
            }
        });
    }
    tokio::sim::stat("puts_acked", puts.values().filter(|p| p.acked).count() as u64);
    tokio::sim::stat("puts_failed", puts.values().filter(|p| !p.acked).count() as u64);
    tokio::sim::stat("gets", gets.len() as u64);
    tokio::sim::stat("gets_delivering", gets.iter().filter(|g| g.1.resp.starts_with("OK ")).count() as u64);
}

// ---------------------------------------------------------------------------
// proto scenario: C24
// ---------------------------------------------------------------------------
#[derive(Clone, Debug, Serialize)]
struct Frame {
    bytes: Vec<u8>,
    /// what the reference framer expects as the response class; None = no response owed (truncated tail)
    expect: Option<String>,
    desc: String,
}

fn frame_of(body: &[u8]) -> Vec<u8> {
    let mut f = (body.len() as u32).to_le_bytes().to_vec();
    f.extend_from_slice(body);
    f
}

fn gen_payload(r: &mut Rng) -> String {
    let alphabet: Vec<&str> = vec!["a", "Z", "0", " ", "  ", "\u{e9}", "\u{4e16}", "\u{1F600}", "\t", "-", "_", "{", "\"", "\u{7f}", "\u{1}"];
    // mostly short payloads; one in six is long: its length sits around a power of two (where buffers and
    // log-truncation limits live) and multi-byte characters straddle every such byte offset, up to the frame limit
    let mut s = String::new();
    if r.chance(0.17) {
        let target = *r.pick(&[120u64, 250, 256, 260, 510, 1020, 4090, 16380, 60000]) + r.below(12);
        let wide = *r.pick(&["\u{e9}", "\u{4e16}", "\u{1F600}"]);
        while (s.len() as u64) < target {
            if r.chance(0.3) {
                s.push_str(wide);
            } else {
                s.push_str(*r.pick(&alphabet[..]));
            }
        }
    } else {
        let n = r.range(1, 24);
        for _ in 0..n {
            s.push_str(*r.pick(&alphabet[..]));
        }
    }
    // the command line's trailing whitespace is not part of the payload
    let t = s.trim_end().to_string();
    if t.is_empty() {
        "p".into()
    } else {
        t
    }
}

async fn proto_world(seed: u64, scale: u64, root: std::path::PathBuf) {
    let nodes = match boot(1, &root).await {
        Ok(n) => n,
        Err(e) => {
            finding("harness.boot", format!("boot failed: {e}"), &[]);
            DONE.with(|d| *d.borrow_mut() = true);
            return;
        }
    };
    let mut r = Rng(crate::mix(seed, 0x24));
    let n_conns = r.range(1, 3);
    for conn_i in 0..n_conns {
        let topic = format!("t{}", conn_i);
        // build the byte stream and, alongside, what a reference framer expects
        let mut frames: Vec<Frame> = Vec::new();
        frames.push(Frame { bytes: frame_of(format!("REGISTER {}", topic).as_bytes()), expect: Some("OK".into()), desc: "register".into() });
        let n_frames = (r.range(3, 40) * scale / 100).max(3);
        let mut queue: std::collections::VecDeque<String> = std::collections::VecDeque::new();
        for _ in 0..n_frames {
            match r.below(14) {
                0..=3 => {
                    let p = gen_payload(&mut r);
                    let trailing = if r.chance(0.3) { *r.pick(&[" ", "  ", "\n", "\t "]) } else { "" };
                    queue.push_back(p.clone());
                    frames.push(Frame { bytes: frame_of(format!("PUT {} {}{}", topic, p, trailing).as_bytes()), expect: Some("OK".into()), desc: format!("put {:?}", p) });
                }
                4..=6 => {
                    let expect = match queue.pop_front() {
                        Some(p) => format!("OK {}", p),
                        None => "EMPTY".into(),
                    };
                    frames.push(Frame { bytes: frame_of(format!("GET {}", topic).as_bytes()), expect: Some(expect), desc: "get".into() });
                }
                7 => frames.push(Frame { bytes: frame_of(b"FROB x y"), expect: Some("ERR".into()), desc: "unknown verb".into() }),
                8 => frames.push(Frame { bytes: frame_of(*r.pick(&[&b"PUT"[..], &b"PUT onlytopic"[..], &b"GET"[..], &b"REGISTER"[..], &b"STATE"[..]])), expect: Some("ERR".into()), desc: "missing args".into() }),
                9 => frames.push(Frame { bytes: 0u32.to_le_bytes().to_vec(), expect: Some("ERR invalid frame length".into()), desc: "zero length".into() }),
                10 => {
                    // oversized length with the announced body present: the frame is header + body
                    let n = 64 * 1024 + 1 + r.below(2000) as usize;
                    let mut b = (n as u32).to_le_bytes().to_vec();
                    // the body looks like further frames, to make desynchronisation visible
                    let inner = frame_of(format!("PUT {} injected", topic).as_bytes());
                    while b.len() < 4 + n {
                        let take = inner.len().min(4 + n - b.len());
                        b.extend_from_slice(&inner[..take]);
                    }
                    frames.push(Frame { bytes: b, expect: Some("ERR invalid frame length".into()), desc: format!("oversized length {} with body", n) });
                }
                11 => {
                    let mut body = format!("PUT {} ", topic).into_bytes();
                    body.extend_from_slice(&[0xff, 0xfe, 0x80]);
                    frames.push(Frame { bytes: frame_of(&body), expect: Some("ERR invalid utf-8".into()), desc: "invalid utf-8".into() });
                }
                12 => frames.push(Frame { bytes: frame_of(format!("STATE {}", topic).as_bytes()), expect: Some("{".into()), desc: "state".into() }),
                _ => frames.push(Frame { bytes: frame_of(b"METRICS"), expect: Some("{".into()), desc: "metrics".into() }),
            }
        }
        // optionally a truncated final frame (no response owed) and close
        if r.chance(0.3) {
            let f = frame_of(format!("PUT {} truncated-tail", topic).as_bytes());
            let cut = r.range(1, f.len() as u64 - 1) as usize;
            frames.push(Frame { bytes: f[..cut].to_vec(), expect: None, desc: "truncated final frame".into() });
        }
        let stream: Vec<u8> = frames.iter().flat_map(|f| f.bytes.iter().copied()).collect();
        let expects: Vec<(String, String)> = frames.iter().filter_map(|f| f.expect.clone().map(|e| (e, f.desc.clone()))).collect();
        tokio::sim::stat("frames_sent", frames.len() as u64);
        let Some(mut conn) = tokio::net::sim_connect(&nodes[0].client_addr).ok() else { continue };
        // deliver in seeded chunks, reading responses as they come
        let mut sent = 0usize;
        let mut inbox: Vec<u8> = Vec::new();
        let chunk_mode = r.below(3);
        while sent < stream.len() {
            let n = match chunk_mode {
                0 => 1,
                1 => r.range(1, 64) as usize,
                _ => r.range(1, 70_000) as usize,
            }
            .min(stream.len() - sent);
            conn.push_bytes(&stream[sent..sent + n]);
            sent += n;
            if r.chance(0.5) {
                tokio::time::sleep(Duration::from_millis(r.range(0, 3))).await;
            } else {
                tokio::sim::yield_now().await;
            }
            inbox.extend(conn.take_available());
        }
        conn.close_write();
        // let the server finish
        for _ in 0..400 {
            tokio::time::sleep(Duration::from_millis(5)).await;
            inbox.extend(conn.take_available());
            if conn.peer_closed() {
                inbox.extend(conn.take_available());
                break;
            }
        }
        // parse responses
        let mut responses: Vec<String> = Vec::new();
        let mut i = 0usize;
        while i + 4 <= inbox.len() {
            let n = u32::from_le_bytes(inbox[i..i + 4].try_into().unwrap()) as usize;
            if i + 4 + n > inbox.len() {
                break;
            }
            responses.push(String::from_utf8_lossy(&inbox[i + 4..i + 4 + n]).into_owned());
            i += 4 + n;
        }
        tokio::sim::stat("responses", responses.len() as u64);
        // positional comparison with the reference framer
        for (k, (exp, desc)) in expects.iter().enumerate() {
            match responses.get(k) {
                None => {
                    finding(
                        "c24.missing_response",
                        format!("connection {}: frame #{} ({}) got no response; {} frames were owed a response, {} responses arrived", conn_i, k, desc, expects.len(), responses.len()),
                        &[("frame", serde_json::json!(desc.split(' ').next().unwrap_or("")))],
                    );
                    break;
                }
                Some(got) => {
                    let ok = if exp == "OK" || exp == "EMPTY" || exp.starts_with("OK ") || exp.starts_with("ERR invalid") {
                        got == exp
                    } else {
                        got.starts_with(exp.as_str())
                    };
                    if !ok {
                        let after_oversized = expects[..k].iter().any(|(_, d)| d.starts_with("oversized"));
                        finding(
                            "c24.wrong_response",
                            format!("connection {}: frame #{} ({}) expected {:?} but the server answered {:?}", conn_i, k, desc, exp, got),
                            &[("after_oversized_frame", serde_json::json!(after_oversized)), ("frame", serde_json::json!(desc.split(' ').next().unwrap_or("")))],
                        );
                        break;
                    }
                }
            }
        }
        if responses.len() > expects.len() {
            let after_oversized = expects.iter().any(|(_, d)| d.starts_with("oversized"));
            finding(
                "c24.extra_response",
                format!("connection {}: {} responses for {} frames (first extra: {:?})", conn_i, responses.len(), expects.len(), responses[expects.len()]),
                &[("after_oversized_frame", serde_json::json!(after_oversized))],
            );
        }
    }
    DONE.with(|d| *d.borrow_mut() = true);
}

// ---------------------------------------------------------------------------
// meta scenario: C18
// ---------------------------------------------------------------------------
#[derive(Default, Clone)]
struct SealedView {
    // (topic, segment) -> (count, leader) once sealed
    sealed: BTreeMap<(String, u64), (u64, u64)>,
}

thread_local! {
    static SEALED: RefCell<BTreeMap<u64, SealedView>> = const { RefCell::new(BTreeMap::new()) };
    static TOPICS_SEEN: RefCell<BTreeSet<String>> = const { RefCell::new(BTreeSet::new()) };
}

fn check_metadata_invariants(node: u64, index: usize) {
    let meta = METAS.with(|m| m.borrow().get(&node).cloned());
    let Some(meta) = meta else { return };
    let topics: Vec<String> = TOPICS_SEEN.with(|t| t.borrow().iter().cloned().collect());
    for topic in topics {
        let Some(st) = meta.get_topic_state(&topic) else { continue };
        tokio::sim::stat("c18_states_checked", 1);
        let cur = st.current_segment;
        let fail = |what: String| {
            finding("c18.invariant", format!("node {} after applying entry {}: topic {}: {} (state: current={} leader={} sealed={:?} leaders={:?} offset={})", node, index, topic, what, st.current_segment, st.leader_node, st.sealed_segments, st.segment_leaders, st.last_sealed_entry_offset), &[("what", serde_json::json!(what.split(':').next().unwrap_or("")))]);
        };
        if cur < 1 {
            fail("current segment below 1".into());
            continue;
        }
        // segments are exactly 1..current: sealed = 1..current-1, leaders = 1..current
        let sealed_keys: BTreeSet<u64> = st.sealed_segments.keys().copied().collect();
        let want_sealed: BTreeSet<u64> = (1..cur).collect();
        if sealed_keys != want_sealed {
            fail(format!("sealed segments not 1..current-1: {:?}", sealed_keys));
        }
        let leader_keys: BTreeSet<u64> = st.segment_leaders.keys().copied().collect();
        let want_leaders: BTreeSet<u64> = (1..=cur).collect();
        if leader_keys != want_leaders {
            fail(format!("segment leaders not 1..current: {:?}", leader_keys));
        }
        if st.segment_leaders.get(&cur).copied() != Some(st.leader_node) {
            fail(format!("leader of open segment: {:?} but topic leader {}", st.segment_leaders.get(&cur), st.leader_node));
        }
        let sum: u64 = st.sealed_segments.values().sum();
        if sum != st.last_sealed_entry_offset {
            fail(format!("cumulative offset: {} but sum of sealed counts {}", st.last_sealed_entry_offset, sum));
        }
        // sealed segments never change afterwards
        SEALED.with(|s| {
            let mut s = s.borrow_mut();
            let v = s.entry(node).or_default();
            for (seg, count) in st.sealed_segments.iter() {
                let leader = st.segment_leaders.get(seg).copied().unwrap_or(0);
                match v.sealed.get(&(topic.clone(), *seg)) {
                    Some((c0, l0)) if *c0 != *count || *l0 != leader => {
                        finding(
                            "c18.sealed_changed",
                            format!("node {} after entry {}: sealed segment {} of {} changed from (count {}, leader {}) to (count {}, leader {})", node, index, seg, topic, c0, l0, count, leader),
                            &[],
                        );
                    }
                    Some(_) => {}
                    None => {
                        v.sealed.insert((topic.clone(), *seg), (*count, leader));
                    }
                }
            }
        });
    }
}

async fn meta_world(seed: u64, scale: u64, root: std::path::PathBuf) {
    let nodes = match boot(3, &root).await {
        Ok(n) => n,
        Err(e) => {
            finding("harness.boot", format!("boot failed: {e}"), &[]);
            DONE.with(|d| *d.borrow_mut() = true);
            return;
        }
    };
    let topics = ["ta", "tb"];
    for t in topics {
        TOPICS_SEEN.with(|s| s.borrow_mut().insert(t.to_string()));
    }
    octopii::sim::set_on_apply(Rc::new(|node, index, _cmd, _ok| {
        check_metadata_invariants(node, index);
    }));
    octopii::sim::set_faults(true);
    let remaining = Rc::new(RefCell::new(3u32));
    for (pi, n) in nodes.iter().enumerate() {
        let n = n.clone();
        let rem = remaining.clone();
        tokio::sim::set_label(n.id);
        tokio::spawn(async move {
            let mut r = Rng(crate::mix(seed, 0x1800 + pi as u64));
            let count = (r.range(6, 20) * scale / 100).max(3);
            for _ in 0..count {
                let t = r.pick(&["ta", "tb", "ghost"]).to_string();
                let choice = r.below(10);
                let res: Result<(), String> = match choice {
                    0..=2 => n.controller.propose_metadata(MetadataCmd::CreateTopic { name: t.clone(), initial_leader: r.range(1, 3) }).await.map_err(|e| e.to_string()),
                    3..=6 => n
                        .controller
                        .propose_metadata(MetadataCmd::RolloverTopic { name: t.clone(), new_leader: r.range(1, 3), sealed_segment_entry_count: r.below(6) })
                        .await
                        .map_err(|e| e.to_string()),
                    7 => n.controller.propose_metadata(MetadataCmd::UpsertNode { node_id: r.range(1, 4), addr: format!("10.0.0.{}:{}", r.range(1, 4), 6000 + r.range(1, 4)) }).await.map_err(|e| e.to_string()),
                    _ => {
                        // undecodable / mutated bytes straight into the log (only the leader can propose)
                        let mut bytes = bincode::serialize(&MetadataCmd::RolloverTopic { name: t.clone(), new_leader: 2, sealed_segment_entry_count: 3 }).unwrap_or_default();
                        match r.below(3) {
                            0 => bytes.truncate(r.below(bytes.len() as u64 + 1) as usize),
                            1 => {
                                if !bytes.is_empty() {
                                    let i = r.below(bytes.len() as u64) as usize;
                                    bytes[i] ^= 1 << r.below(8);
                                }
                            }
                            _ => bytes = (0..r.range(0, 40)).map(|_| r.next() as u8).collect(),
                        }
                        tokio::sim::stat("garbage_proposals", 1);
                        n.controller.raft.propose(bytes).await.map(|_| ()).map_err(|e| e.to_string())
                    }
                };
                if res.is_ok() {
                    tokio::sim::stat("proposals_ok", 1);
                } else {
                    tokio::sim::stat("proposals_err", 1);
                }
                if r.chance(0.4) {
                    tokio::time::sleep(Duration::from_millis(r.range(1, 300))).await;
                }
            }
            *rem.borrow_mut() -= 1;
        });
    }
    tokio::sim::set_label(0);
    let t_end = tokio::sim::now_ns() + 900_000_000_000u128;
    while *remaining.borrow() > 0 && tokio::sim::now_ns() < t_end {
        tokio::time::sleep(Duration::from_millis(50)).await;
    }
    octopii::sim::set_faults(false);
    for _ in 0..6000 {
        if octopii::sim::all_caught_up() {
            break;
        }
        tokio::time::sleep(Duration::from_millis(5)).await;
    }
    if !octopii::sim::all_caught_up() {
        finding("harness.catchup", "replicas did not catch up after faults stopped".into(), &[]);
    }
    // replicas that applied the same prefix are equal
    let snaps: Vec<(u64, Vec<u8>)> = nodes.iter().map(|n| (n.id, n.metadata.snapshot())).collect();
    let norm = |b: &Vec<u8>| -> serde_json::Value { serde_json::from_slice(b).unwrap_or(serde_json::Value::Null) };
    for w in snaps.windows(2) {
        if norm(&w[0].1) != norm(&w[1].1) {
            finding("c18.replicas_differ", format!("nodes {} and {} applied the same {} commands but hold different metadata", w[0].0, w[1].0, octopii::sim::committed_len()), &[]);
        }
    }
    tokio::sim::stat("committed_commands", octopii::sim::committed_len() as u64);
    DONE.with(|d| *d.borrow_mut() = true);
}

// ---------------------------------------------------------------------------
// child entry
// ---------------------------------------------------------------------------
pub fn run_child(id: &str, seed: u64, scale: u64) -> i32 {
    crate::set_getrandom_seed(crate::mix(seed, 0xD51));
    IS_MAIN.with(|m| *m.borrow_mut() = true);
    std::env::set_var("WALRUS_QUIET", "1");
    let root = std::env::current_dir().unwrap().join("dsim-data");
    let _ = std::fs::remove_dir_all(&root);
    std::fs::create_dir_all(&root).unwrap();
    walrus_rust::wal::verif::install(Box::new(DHooks));
    // a panic anywhere is a finding for the scenario that produced it
    std::panic::set_hook(Box::new(|info| {
        let loc = info.location().map(|l| format!("{}:{}", l.file(), l.line())).unwrap_or_default();
        let msg = if let Some(s) = info.payload().downcast_ref::<&str>() {
            s.to_string()
        } else if let Some(s) = info.payload().downcast_ref::<String>() {
            s.clone()
        } else {
            "panic".into()
        };
        FINDINGS.with(|f| f.borrow_mut().push(Finding { rule: "any.panic".into(), detail: format!("panic: {} at {}", msg, loc), facts: BTreeMap::new() }));
    }));
    let mut result = ChildResult { id: id.into(), seed, scale, ..Default::default() };
    let (exec, cluster, sample, world): (ExecCfg, octopii::ClusterCfg, serde_json::Value, Box<dyn FnOnce()>) = match id {
        "C22" | "C23" => {
            let cfg = gen_plane(seed, scale);
            std::env::set_var("WALRUS_MAX_SEGMENT_ENTRIES", cfg.threshold.to_string());
            std::env::set_var("WALRUS_MONITOR_CHECK_MS", cfg.monitor_ms.to_string());
            let sample = serde_json::to_value(&cfg).unwrap();
            let e = cfg.exec.clone();
            let c = to_cluster_cfg(&cfg.faults);
            let root2 = root.clone();
            (e, c, sample, Box::new(move || {
                tokio::spawn(plane_world(cfg, root2));
            }))
        }
        "C24" => {
            std::env::set_var("WALRUS_MAX_SEGMENT_ENTRIES", "1000000");
            let mut r = Rng(crate::mix(seed, 0x2400));
            let e = ExecCfg { p_yield: *r.pick(&[0.1, 0.4]), ns_per_step: 20_000, policy: "random".into() };
            let root2 = root.clone();
            (e, octopii::ClusterCfg::default(), serde_json::json!({"profile": "proto", "seed": seed}), Box::new(move || {
                tokio::spawn(proto_world(seed, scale, root2));
            }))
        }
        "C18" => {
            let mut r = Rng(crate::mix(seed, 0x1818));
            let e = ExecCfg { p_yield: *r.pick(&[0.1, 0.4]), ns_per_step: 20_000, policy: "random".into() };
            let c = octopii::ClusterCfg {
                propose_delay_ms: (1, *r.pick(&[5u64, 100])),
                propose_fail_p: *r.pick(&[0.0, 0.1]),
                fail_but_commit_p: 0.5,
                apply_lag_ms: (0, *r.pick(&[5u64, 500, 3000])),
                rpc_delay_ms: (0, *r.pick(&[5u64, 100])),
                rpc_drop_p: *r.pick(&[0.0, 0.03]),
                rpc_dup_p: 0.0,
                leader_change_p: *r.pick(&[0.0, 0.3]),
                snapshot_catchup_p: *r.pick(&[0.0, 0.3]),
                faults_on: false,
            };
            let root2 = root.clone();
            let sample = serde_json::json!({"profile": "meta", "seed": seed, "cluster": format!("{:?}", c)});
            (e, c, sample, Box::new(move || {
                tokio::spawn(meta_world(seed, scale, root2));
            }))
        }
        _ => {
            eprintln!("dsim: unknown scenario {}", id);
            return 2;
        }
    };
    tokio::sim::init(tokio::sim::Config { seed: crate::mix(seed, 0xE8EC), p_yield: exec.p_yield, ns_per_step: exec.ns_per_step, policy: exec.policy.clone(), max_steps: 6_000_000 });
    tokio::net::sim_reset();
    octopii::sim::init(cluster);
    let t0 = tokio::sim::now_ns();
    world();
    let end = tokio::sim::run_until(|| DONE.with(|d| *d.borrow()), t0 + 3_600_000_000_000u128);
    if end != tokio::sim::RunEnd::Done {
        let tasks = tokio::sim::task_names();
        FINDINGS.with(|f| {
            f.borrow_mut().push(Finding {
                rule: "any.stuck".into(),
                detail: format!("the simulation ended with {:?} before the scenario completed (step {}, {} tasks alive)", end, tokio::sim::step(), tasks.len()),
                facts: BTreeMap::new(),
            })
        });
    }
    if id == "C22" || id == "C23" {
        judge_c22();
    }
    result.sim_ms = ((tokio::sim::now_ns() - t0) / 1_000_000) as u64;
    result.stats = tokio::sim::stats();
    for (k, v) in octopii::sim::stats() {
        result.stats.insert(format!("fault.{}", k), v);
    }
    result.stats.insert("steps".into(), tokio::sim::step());
    let hist: Vec<HEv> = HISTORY.with(|h| h.borrow().clone());
    let hjson = serde_json::to_vec(&hist).unwrap_or_default();
    let mut d: u64 = 0xcbf29ce484222325;
    for b in hjson.iter() {
        d ^= *b as u64;
        d = d.wrapping_mul(0x00000100000001B3);
    }
    result.digest = d ^ tokio::sim::sched_hash();
    result.key = d ^ tokio::sim::sched_hash().rotate_left(7);
    result.findings = FINDINGS.with(|f| f.borrow().clone());
    result.nontrivial = match id {
        "C22" => result.stats.get("gets_delivering").copied().unwrap_or(0) > 0,
        "C23" => result.stats.get("c23_writes_checked").copied().unwrap_or(0) > 0,
        "C24" => result.stats.get("responses").copied().unwrap_or(0) > 0,
        _ => result.stats.get("c18_states_checked").copied().unwrap_or(0) > 0,
    };
    let mut sample = sample;
    if let Some(o) = sample.as_object_mut() {
        o.insert("history_events".into(), serde_json::json!(hist.len()));
        o.insert("history_head".into(), serde_json::to_value(hist.iter().filter(|e| e.kind == "ret" || e.kind == "write").take(12).collect::<Vec<_>>()).unwrap());
    }
    result.sample = sample;
    if std::env::var("DSIM_DUMP").is_ok() {
        for e in hist.iter() {
            eprintln!("{}", serde_json::to_string(e).unwrap());
        }
        for a in octopii::sim::applies() {
            let cmd = octopii::sim::committed(a.index);
            eprintln!("apply step={} node={} index={} ok={} cmd={}", a.step, a.node, a.index, a.ok, String::from_utf8_lossy(&cmd).chars().take(120).collect::<String>());
        }
    }
    println!("{}", serde_json::to_string(&result).unwrap());
    let _ = std::fs::remove_dir_all(&root);
    unsafe { libc::_exit(0) }
}
