//! dsim: data-plane simulator for distributed-walrus.
//!
//! Real code (included by path from /repo): bucket.rs, client.rs, config.rs, controller/*,
//! metadata.rs, monitor.rs, rpc.rs and the walrus-rust engine underneath. Shims: `tokio`
//! (= the simulator: single-threaded seeded executor, virtual time, in-memory sockets),
//! `octopii` (consensus oracle + simulated RPC), `bincode` (serde_json).
//!
//!   dsim child <ID> <seed_r> [scale]     one simulated run, prints a JSON result
//!   dsim run <ID> quick|thorough         seeded search; evidence; VIOLATION lines
//!   dsim replay <file>
#![allow(dead_code)]

#[path = "/repo/distributed-walrus/src/bucket.rs"]
mod bucket;
#[path = "/repo/distributed-walrus/src/client.rs"]
mod client;
#[path = "/repo/distributed-walrus/src/config.rs"]
mod config;
#[path = "/repo/distributed-walrus/src/controller/mod.rs"]
mod controller;
#[path = "/repo/distributed-walrus/src/metadata.rs"]
mod metadata;
#[path = "/repo/distributed-walrus/src/monitor.rs"]
mod monitor;
#[path = "/repo/distributed-walrus/src/rpc.rs"]
mod rpc;

mod driver;
mod world;

use std::sync::atomic::{AtomicU64, Ordering};

// hash-order determinism (see sim/wsim/src/main.rs)
static GR_SEED: AtomicU64 = AtomicU64::new(0x0D51_0D51_0D51_0D51);
static GR_CTR: AtomicU64 = AtomicU64::new(0);

pub fn set_getrandom_seed(s: u64) {
    GR_SEED.store(s, Ordering::SeqCst);
    GR_CTR.store(0, Ordering::SeqCst);
}

pub fn mix(a: u64, b: u64) -> u64 {
    let mut x = a ^ b.rotate_left(32) ^ 0xD6E8FEB86659FD93;
    let mut next = || {
        x = x.wrapping_add(0x9E3779B97F4A7C15);
        let mut z = x;
        z = (z ^ (z >> 30)).wrapping_mul(0xBF58476D1CE4E5B9);
        z = (z ^ (z >> 27)).wrapping_mul(0x94D049BB133111EB);
        z ^ (z >> 31)
    };
    let r = next();
    r ^ next()
}

#[no_mangle]
pub unsafe extern "C" fn getrandom(buf: *mut u8, len: usize, _flags: u32) -> isize {
    let seed = GR_SEED.load(Ordering::SeqCst);
    let mut i = 0;
    while i < len {
        let c = GR_CTR.fetch_add(1, Ordering::SeqCst);
        let w = mix(seed, c).to_le_bytes();
        let n = (len - i).min(8);
        std::ptr::copy_nonoverlapping(w.as_ptr(), buf.add(i), n);
        i += n;
    }
    len as isize
}

fn main() {
    let args: Vec<String> = std::env::args().collect();
    let code = match args.get(1).map(|s| s.as_str()) {
        Some("child") => {
            let id = args.get(2).cloned().unwrap_or_default();
            let seed: u64 = args.get(3).and_then(|s| s.parse().ok()).unwrap_or(1);
            let scale: u64 = args.get(4).and_then(|s| s.parse().ok()).unwrap_or(100);
            world::run_child(&id, seed, scale)
        }
        Some("run") => driver::run_check(args.get(2).map(|s| s.as_str()).unwrap_or(""), args.get(3).map(|s| s.as_str()).unwrap_or("quick")),
        Some("replay") => driver::replay(args.get(2).map(|s| s.as_str()).unwrap_or("")),
        _ => {
            eprintln!("usage: dsim run <ID> quick|thorough | replay <file> | child <ID> <seed> [scale]");
            2
        }
    };
    std::process::exit(code);
}
