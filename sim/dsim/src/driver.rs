//! Parent: seeded search over child runs, known findings, replay files, evidence.
use crate::world::{ChildResult, Finding};
use serde::{Deserialize, Serialize};
use std::collections::{BTreeMap, BTreeSet};
use std::path::PathBuf;
use std::process::{Command, Stdio};
use std::sync::atomic::{AtomicU64, Ordering};
use std::sync::Mutex;
use std::time::{Duration, Instant};

fn verif_root() -> PathBuf {
    PathBuf::from(std::env::var("VERIF_ROOT").unwrap_or_else(|_| "/verif".into()))
}

#[derive(Serialize, Deserialize, Clone, Debug)]
struct KnownEntry {
    #[serde(default)]
    status: String,
    property: String,
    rule: String,
    #[serde(default)]
    r#match: BTreeMap<String, serde_json::Value>,
    summary: String,
}

fn load_known() -> Vec<KnownEntry> {
    let p = verif_root().join("known_findings.json");
    match std::fs::read(&p) {
        Ok(b) => serde_json::from_slice::<Vec<KnownEntry>>(&b).unwrap_or_else(|e| {
            eprintln!("dsim: cannot parse {}: {}", p.display(), e);
            std::process::exit(2)
        }),
        Err(_) => vec![],
    }
}

fn known_match<'a>(known: &'a [KnownEntry], prop: &str, f: &Finding) -> Option<&'a KnownEntry> {
    known.iter().find(|k| {
        k.status != "fixed"
            && k.property == prop
            && k.rule == f.rule
            && k.r#match.iter().all(|(fk, fv)| match fv.as_object().and_then(|o| o.get("any_of")).and_then(|v| v.as_array()) {
                Some(list) => f.facts.get(fk).map(|g| list.contains(g)).unwrap_or(false),
                None => f.facts.get(fk) == Some(fv),
            })
    })
}

#[derive(Serialize, Deserialize, Clone, Debug)]
struct ReplayFile {
    simulator: String,
    property: String,
    rule: String,
    detail: String,
    facts: BTreeMap<String, serde_json::Value>,
    seed_r: u64,
    scale: u64,
    digest: String,
    minimised: bool,
}

static SCRATCH_CTR: AtomicU64 = AtomicU64::new(0);

fn run_child(id: &str, seed_r: u64, scale: u64) -> Result<ChildResult, String> {
    let n = SCRATCH_CTR.fetch_add(1, Ordering::SeqCst);
    let dir = PathBuf::from(std::env::var("WSIM_SCRATCH").unwrap_or_else(|_| "/dev/shm/wsim".into())).join(format!("{}-d{}", std::process::id(), n));
    let _ = std::fs::remove_dir_all(&dir);
    std::fs::create_dir_all(&dir).map_err(|e| e.to_string())?;
    let exe = std::env::current_exe().map_err(|e| e.to_string())?;
    let mut child = Command::new(exe)
        .arg("child")
        .arg(id)
        .arg(seed_r.to_string())
        .arg(scale.to_string())
        .current_dir(&dir)
        .env("WALRUS_QUIET", "1")
        .env_remove("WALRUS_DATA_DIR")
        .stdin(Stdio::null())
        .stdout(Stdio::piped())
        .stderr(Stdio::piped())
        .spawn()
        .map_err(|e| e.to_string())?;
    let start = Instant::now();
    let out = loop {
        match child.try_wait() {
            Ok(Some(_)) => break child.wait_with_output().map_err(|e| e.to_string())?,
            Ok(None) => {
                if start.elapsed() > Duration::from_secs(120) {
                    let _ = child.kill();
                    let _ = child.wait();
                    let _ = std::fs::remove_dir_all(&dir);
                    return Err("watchdog".into());
                }
                std::thread::sleep(Duration::from_millis(2));
            }
            Err(e) => return Err(e.to_string()),
        }
    };
    let _ = std::fs::remove_dir_all(&dir);
    let text = String::from_utf8_lossy(&out.stdout);
    match text.lines().rev().find(|l| l.starts_with('{')).and_then(|l| serde_json::from_str::<ChildResult>(l).ok()) {
        Some(r) => Ok(r),
        None => Err(format!("child status {:?}; stderr: {}", out.status, String::from_utf8_lossy(&out.stderr).chars().take(400).collect::<String>())),
    }
}

fn owns(id: &str, rule: &str) -> bool {
    let p = id.to_lowercase();
    rule.starts_with(&format!("{}.", p)) || rule.starts_with("any.")
}

fn rule_text(id: &str) -> &'static str {
    match id {
        "C22" => "1-3 nodes of the real controller/bucket/monitor/client/metadata code over the real engine, 1-2 topics, rollover thresholds 1-4 entries, monitor interval 10 ms-10 s, 2-6 client tasks connected to arbitrary nodes issuing PUT/GET through the real text protocol with unique payloads; consensus stub faults while the workload runs (proposal latency/failure, follower apply lag up to 2 s, snapshot catch-up, RPC delay/loss/duplication), then faults stop and GETs drain every topic round-robin on all nodes; oracle over the history stamped with executor step numbers: every acknowledged payload returned by exactly one GET, none twice, per-client acknowledgement order respected, EMPTY only when nothing acknowledged is pending; distinct = (configuration, history, schedule hash); non-trivial = at least one GET delivered a payload",
        "C23" => "same runs as C22; the engine's append hook reports every write with the node label of the task performing it, and at that instant the harness reads that node's applied Metadata: the segment must be open and owned by this node; guarded observation hooks give the provenance of the lease check that let each write through (fact lease_check); non-trivial = at least one write was checked",
        "C24" => "single node; 1-3 connections, each a concatenation of valid frames (REGISTER, PUT with arbitrary UTF-8 payloads incl. multi-byte, embedded/leading spaces, control characters, trailing whitespace on the line, one in six 120-60000 bytes long with multi-byte characters across power-of-two offsets; GET; STATE; METRICS), unknown verbs, missing arguments, zero length, oversized length with the announced body present (the body looks like further frames), invalid UTF-8, truncated final frame; the simulated socket delivers the stream in seeded chunks (1 byte ... 70 kB), read() returns seeded short counts, and the socket closes after the last byte; oracle: a reference framer over the same bytes gives the expected number, order and class of responses, matched positionally; each GET returns the PUT payload byte-identical; non-trivial = responses were received",
        _ => "3 replicas of the real Metadata state machine behind the consensus stub; proposer tasks on every node issue seeded CreateTopic (new and duplicate), RolloverTopic (fresh, stale, unknown topic, counts 0..5), UpsertNode, and byte strings that are truncated, bit-flipped or random encodings; proposal failure, leader change, apply lag and snapshot catch-up injected; after every apply on every replica: segments exactly 1..current, one leader per segment, leader of the open segment = topic leader, cumulative offset = sum of sealed counts, sealed (count, leader) pairs never change; at the end replicas with the same applied prefix are equal; no panic; non-trivial = invariants were evaluated on at least one topic state",
    }
}

pub fn run_check(id: &str, tier: &str) -> i32 {
    if !["C18", "C22", "C23", "C24"].contains(&id) {
        eprintln!("dsim: unknown property {}", id);
        return 2;
    }
    let t0 = Instant::now();
    let thorough = tier == "thorough";
    let base_seed: u64 = std::env::var("VERIF_SEED").ok().and_then(|s| s.parse().ok()).unwrap_or(1);
    // fixed number of runs per tier (~60 s / ~600 s on the reference VM); wall-clock cap only as a safety net;
    // VERIF_BUDGET_S alone keeps the old "as many as fit" behaviour for sweeps
    let budget_env: Option<u64> = std::env::var("VERIF_BUDGET_S").ok().and_then(|s| s.parse().ok());
    let budget_s: u64 = budget_env.unwrap_or(if thorough { 2400 } else { 240 });
    let workers: usize = std::env::var("VERIF_WORKERS").ok().and_then(|s| s.parse().ok()).unwrap_or(8);
    let q_runs: u64 = match id {
        "C18" => 3000,
        "C22" => 3500,
        "C23" => 3500,
        _ => 3300,
    };
    let max_runs: u64 = std::env::var("VERIF_MAX_RUNS")
        .ok()
        .and_then(|s| s.parse().ok())
        .unwrap_or(if budget_env.is_some() { u64::MAX } else if thorough { q_runs * 3 } else { q_runs });
    println!("dsim: property={} tier={} VERIF_SEED={} runs={} cap={}s workers={}", id, tier, base_seed, if max_runs == u64::MAX { "unbounded".to_string() } else { max_runs.to_string() }, budget_s, workers);
    let deadline = t0 + Duration::from_secs(budget_s);
    let next = AtomicU64::new(0);
    struct Agg {
        runs: u64,
        keys: BTreeSet<u64>,
        findings: Vec<(u64, u64, Finding)>,
        samples: Vec<serde_json::Value>,
        stats: BTreeMap<String, u64>,
        errors: Vec<String>,
        nondet: Vec<u64>,
        rechecked: u64,
        sim_ms: u64,
    }
    let agg = Mutex::new(Agg { runs: 0, keys: BTreeSet::new(), findings: vec![], samples: vec![], stats: BTreeMap::new(), errors: vec![], nondet: vec![], rechecked: 0, sim_ms: 0 });
    let idh = id.bytes().fold(0xcbf29ce484222325u64, |h, b| (h ^ b as u64).wrapping_mul(0x00000100000001B3));
    // C22 and C23 share runs: same seeds
    let idh = if id == "C23" { "C22".bytes().fold(0xcbf29ce484222325u64, |h, b| (h ^ b as u64).wrapping_mul(0x00000100000001B3)) } else { idh };
    let digest_log: Option<Mutex<std::fs::File>> = std::env::var("VERIF_DIGEST_LOG").ok().and_then(|p| std::fs::File::create(p).ok()).map(Mutex::new);
    std::thread::scope(|s| {
        for _ in 0..workers {
            s.spawn(|| loop {
                if Instant::now() >= deadline {
                    break;
                }
                let i = next.fetch_add(1, Ordering::SeqCst);
                if i >= max_runs {
                    break;
                }
                let seed_r = crate::mix(crate::mix(base_seed, idh), i);
                let r = run_child(id, seed_r, 100);
                if let (Some(l), Ok(res)) = (digest_log.as_ref(), r.as_ref()) {
                    use std::io::Write;
                    let _ = writeln!(l.lock().unwrap(), "{} {} {}", i, seed_r, res.digest);
                }
                let mut recheck = None;
                if i % 50 == 7 {
                    recheck = Some(run_child(id, seed_r, 100));
                }
                let mut a = agg.lock().unwrap();
                a.runs += 1;
                match r {
                    Ok(res) => {
                        if let Some(Ok(again)) = &recheck {
                            a.rechecked += 1;
                            if again.digest != res.digest {
                                a.nondet.push(seed_r);
                            }
                        }
                        if res.nontrivial {
                            a.keys.insert(res.key);
                        }
                        a.sim_ms += res.sim_ms;
                        for (k, v) in res.stats.iter() {
                            *a.stats.entry(k.clone()).or_insert(0) += v;
                        }
                        if a.samples.len() < 3 {
                            a.samples.push(res.sample.clone());
                        }
                        for f in res.findings.iter() {
                            if owns(id, &f.rule) {
                                a.findings.push((i, seed_r, f.clone()));
                            } else if f.rule.starts_with("harness.") {
                                a.errors.push(f.detail.clone());
                            } else {
                                *a.stats.entry(format!("other_rule.{}", f.rule)).or_insert(0) += 1;
                            }
                        }
                    }
                    Err(e) => a.errors.push(e),
                }
            });
        }
    });
    let mut a = agg.into_inner().unwrap();
    let search_s = t0.elapsed().as_secs_f64();
    let known = load_known();
    a.findings.sort_by_key(|(i, _, f)| (f.rule.clone(), *i));
    let mut known_hits: BTreeMap<String, (u64, String)> = BTreeMap::new();
    let mut new_by_rule: BTreeMap<String, Vec<(u64, u64, Finding)>> = BTreeMap::new();
    for (i, s, f) in a.findings.iter() {
        if let Some(k) = known_match(&known, id, f) {
            let e = known_hits.entry(format!("{} {}", k.rule, k.summary)).or_insert((0, f.detail.clone()));
            e.0 += 1;
        } else {
            new_by_rule.entry(f.rule.clone()).or_default().push((*i, *s, f.clone()));
        }
    }
    let replay_dir = std::env::var("VERIF_REPLAY_DIR").map(PathBuf::from).unwrap_or_else(|_| verif_root().join("replays"));
    let _ = std::fs::create_dir_all(&replay_dir);
    let mut lines = Vec::new();
    for (rule, list) in new_by_rule.iter() {
        let (_i, seed_r, f) = &list[0];
        // minimise: smaller workloads under the same seed while the same rule (not a known one) still fires
        let mut best_scale = 100u64;
        let mut best = f.clone();
        for scale in [10u64, 20, 35, 50, 70] {
            if let Ok(r) = run_child(id, *seed_r, scale) {
                if let Some(ff) = r.findings.iter().find(|x| &x.rule == rule && known_match(&known, id, x).is_none()) {
                    best_scale = scale;
                    best = ff.clone();
                    break;
                }
            }
        }
        let digest = run_child(id, *seed_r, best_scale).map(|r| format!("{:016x}", r.digest)).unwrap_or_default();
        let rf = ReplayFile { simulator: "dsim".into(), property: id.into(), rule: rule.clone(), detail: best.detail.clone(), facts: best.facts.clone(), seed_r: *seed_r, scale: best_scale, digest, minimised: best_scale < 100 };
        let path = replay_dir.join(format!("{}-{}-{}.json", id, rule.replace('.', "_"), seed_r));
        std::fs::write(&path, serde_json::to_vec_pretty(&rf).unwrap()).expect("replay");
        println!("finding: rule={} occurrences={} scale={} detail: {}", rule, list.len(), best_scale, best.detail);
        println!("  facts: {}", serde_json::to_string(&best.facts).unwrap());
        lines.push(format!("VIOLATION property={} replay={}", id, path.display()));
    }
    for (k, (n, d)) in known_hits.iter() {
        println!("KNOWN-FINDING: property={} {} (seen {} times; e.g. {})", id, k, n, d.chars().take(160).collect::<String>());
    }
    let wall = t0.elapsed().as_secs_f64();
    let faults: BTreeMap<&String, &u64> = a.stats.iter().filter(|(k, _)| k.starts_with("fault.")).collect();
    let ev = serde_json::json!({
        "property_id": id,
        "tier": tier,
        "seed": base_seed,
        "level": "exploration",
        "coverage": {
            "evaluations": a.runs,
            "distinct_nontrivial": a.keys.len(),
            "rule": rule_text(id),
            "samples": a.samples,
            "simulated_runs": a.runs,
            "runs_per_hour": if search_s > 0.0 { (a.runs as f64 / search_s * 3600.0) as u64 } else { 0 },
            "simulated_time_ms": a.sim_ms,
            "executor_steps": a.stats.get("steps").copied().unwrap_or(0),
            "faults_fired": faults,
            "probes": a.stats.iter().filter(|(k, _)| !k.starts_with("fault.")).collect::<BTreeMap<_, _>>(),
            "determinism_rechecks": a.rechecked,
            "determinism_mismatches": a.nondet.len(),
            "components": {
                "real": ["distributed-walrus/src/{bucket,client,config,controller/*,metadata,monitor,rpc}.rs included by path from /repo's working tree", "walrus-rust engine (src/wal/**, --cfg walrus_verif), real files on tmpfs"],
                "stub": ["tokio = sim/shims/tokio (single-threaded seeded executor, virtual time, in-memory sockets)", "octopii = sim/shims/octopii (consensus oracle: one committed log, per-node apply with lag, snapshot catch-up, simulated RPC) with the real rpc/message.rs", "bincode = serde_json", "engine background threads parked for the whole run", "start_node wiring reproduced from main.rs without clap/ctrl-c/bootstrap sleeps"]
            },
            "known_findings_hit": known_hits.iter().map(|(k, v)| (k.clone(), v.0)).collect::<BTreeMap<_, _>>(),
            "harness_errors": a.errors.len(),
        },
        "assumptions": [
            "consensus is represented by a stub restricted to behaviour Raft allows (DESIGN.md Appendix C); node crashes are not simulated",
            "seeded sampling, not exhaustive enumeration"
        ],
        "wall_s": wall,
        "violations": new_by_rule.len(),
    });
    let evdir = std::env::var("VERIF_EVIDENCE_DIR").map(PathBuf::from).unwrap_or_else(|_| verif_root().join("evidence"));
    let _ = std::fs::create_dir_all(&evdir);
    std::fs::write(evdir.join(format!("{}.json", id)), serde_json::to_vec_pretty(&ev).unwrap()).expect("evidence");
    println!("dsim: {} runs, {} distinct non-trivial, {:.1}s, violations={}, known={}, harness_errors={}, nondet={}", a.runs, a.keys.len(), wall, new_by_rule.len(), known_hits.len(), a.errors.len(), a.nondet.len());
    for e in a.errors.iter().take(3) {
        println!("harness-error: {}", e.chars().take(300).collect::<String>());
    }
    if !a.nondet.is_empty() {
        eprintln!("dsim: NONDETERMINISM for seeds {:?}", &a.nondet[..a.nondet.len().min(5)]);
        return 2;
    }
    if a.errors.len() as u64 * 10 > a.runs.max(1) {
        return 2;
    }
    if a.keys.len() < 2 {
        eprintln!("dsim: too few non-trivial runs");
        return 2;
    }
    for l in lines.iter() {
        println!("{}", l);
    }
    if lines.is_empty() {
        0
    } else {
        1
    }
}

pub fn replay(path: &str) -> i32 {
    let rf: ReplayFile = match std::fs::read(path).ok().and_then(|b| serde_json::from_slice(&b).ok()) {
        Some(r) => r,
        None => {
            eprintln!("dsim: cannot read {}", path);
            return 2;
        }
    };
    match run_child(&rf.property, rf.seed_r, rf.scale) {
        Ok(r) => {
            let d = format!("{:016x}", r.digest);
            println!("replay: property={} rule={} recorded_digest={} replay_digest={}", rf.property, rf.rule, rf.digest, d);
            for f in r.findings.iter() {
                println!("  finding: {} {}", f.rule, f.detail);
            }
            if r.findings.iter().any(|f| f.rule == rf.rule) {
                println!("VIOLATION property={} replay={}", rf.property, path);
                1
            } else {
                println!("replay: the recorded violation did not reproduce");
                0
            }
        }
        Err(e) => {
            eprintln!("dsim: replay failed: {}", e);
            2
        }
    }
}
