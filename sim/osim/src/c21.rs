//! C21: histories of log-store operations on the real WalLogStore (+ a second WriteAheadLog for
//! opaque records, the mechanism of the peer address book) with reopen events; each incarnation is
//! a fresh OS process (the vendored engine has process-global state).
use crate::openraft::storage::WalLogStore;
use crate::openraft::types::{AppEntry, AppTypeConfig};
use crate::wal::WriteAheadLog;
use crate::Rng;
use bytes::Bytes;
use openraft::storage::{IOFlushed, RaftLogStorage};
use openraft::{Entry, EntryPayload, LeaderId, LogId, RaftLogReader, Vote};
use serde::{Deserialize, Serialize};
use std::collections::BTreeMap;
use std::sync::Arc;
use std::time::Duration;

#[derive(Serialize, Deserialize, Clone, Debug, PartialEq)]
#[serde(tag = "op", rename_all = "snake_case")]
pub enum Op {
    Append { start: u64, n: u64, term: u64, size: u64 },
    Truncate { index: u64, term: u64 },
    Purge { index: u64, term: u64 },
    SaveVote { term: u64, node: u64, committed: bool },
    SaveCommitted { term: u64, index: Option<u64> },
    PeerRecord { id: u64 },
    /// fault: from here on every write that extends beyond `limit` bytes of a file fails with EFBIG
    /// (RLIMIT_FSIZE, SIGXFSZ ignored) - the file system is full; `limit` = u64::MAX lifts it again
    FileSizeLimit { limit: u64 },
}

#[derive(Serialize, Deserialize, Clone, Debug, PartialEq)]
pub struct Inc {
    pub ops: Vec<Op>,
    /// "clean" (drop everything, then exit) or "kill" (exit right after the last op)
    pub end: String,
    /// process crash inside an operation (or inside the reopen itself): the process ends before the `at`-th
    /// intercepted I/O call (positional write, fsync/fdatasync, truncate, rename) of the phase
    #[serde(default, skip_serializing_if = "Option::is_none")]
    pub crash: Option<Crash>,
}

#[derive(Serialize, Deserialize, Clone, Debug, PartialEq)]
pub struct Crash {
    /// "ops" = counted from the first operation of the incarnation; "open" = counted from process start (recovery)
    pub phase: String,
    pub at: u64,
    /// > 0: if the call is a positional write longer than this, that many bytes of it are written first
    pub torn: u64,
}

#[derive(Serialize, Deserialize, Clone, Debug, PartialEq)]
pub struct Plan {
    pub seed: u64,
    pub flush_ms: u64,
    pub incs: Vec<Inc>,
}

#[derive(Serialize, Deserialize, Clone, Debug, Default, PartialEq)]
pub struct State {
    pub open_error: Option<String>,
    pub last_purged: Option<(u64, u64)>,
    pub last_log: Option<(u64, u64)>,
    pub vote: Option<(u64, u64, bool)>,
    pub committed: Option<(u64, u64)>,
    /// (index, term, payload hash)
    pub entries: Vec<(u64, u64, u64)>,
    pub peers: Vec<(u64, String)>,
    /// how many ops of this incarnation were acknowledged
    pub acked: u64,
}

fn payload(seed: u64, index: u64, term: u64, size: u64) -> Vec<u8> {
    let mut x = crate::mix(seed, index * 1000 + term);
    (0..size).map(|_| {
        x = x.wrapping_mul(6364136223846793005).wrapping_add(1442695040888963407);
        (x >> 33) as u8
    }).collect()
}

/// The real persistence functions of the peer address book (cut out of octopii/src/openraft/node.rs by build.rs).
mod peerbook {
    #![allow(dead_code)]
    use crate::error::Result;
    use crate::wal::WriteAheadLog;
    use bytes::Bytes;
    use serde::{Deserialize, Serialize};
    use std::collections::HashMap;
    use std::net::SocketAddr;
    use std::sync::Arc;
    include!(concat!(env!("OUT_DIR"), "/peer_addr.rs"));
    pub async fn load(wal: &Arc<WriteAheadLog>) -> HashMap<u64, SocketAddr> {
        load_peer_addr_records(wal).await
    }
    pub async fn record(wal: &Arc<WriteAheadLog>, peer: u64, addr: SocketAddr) -> bool {
        append_peer_addr_record(wal, peer, addr).await.is_ok()
    }
}

/// (peer id, address) of the n-th address record: a handful of peers whose addresses change over time
fn peer_of(id: u64) -> (u64, std::net::SocketAddr) {
    (1 + id % 3, format!("10.0.{}.{}:6000", id / 250, 1 + id % 250).parse().unwrap())
}

fn hash(b: &[u8]) -> u64 {
    b.iter().fold(0xcbf29ce484222325u64, |h, x| (h ^ *x as u64).wrapping_mul(0x00000100000001B3))
}

pub fn gen_plan(seed: u64, scale: u64) -> Plan {
    let mut r = Rng(crate::mix(seed, 0x21));
    let n_inc = r.range(2, 5);
    let mut incs = Vec::new();
    let mut next_index = 1u64;
    let mut term = 1u64;
    let mut purged = 0u64;
    let mut peer_id = 0u64;
    // recovery replays the log in batches capped at 2000 records and 10 MiB: some histories must exceed either cap
    let shape = r.below(100);
    let (long_history, bulky) = (shape < 5, (5..9).contains(&shape));
    for k in 0..n_inc {
        let n_ops = if k + 1 == n_inc { 0 } else { (r.range(1, 14) * scale / 100).max(1) };
        let mut ops = Vec::new();
        if k == 0 && long_history {
            let n = (r.range(1900, 2400) * scale / 100).max(1);
            ops.push(Op::Append { start: next_index, n, term, size: r.below(9) });
            next_index += n;
        }
        if k == 0 && bulky {
            for _ in 0..(r.range(3, 4) * scale / 100).max(1) {
                let n = r.range(4, 6);
                ops.push(Op::Append { start: next_index, n, term, size: r.range(150_000, 260_000) });
                next_index += n;
            }
        }
        for _ in 0..n_ops {
            match r.below(10) {
                0..=4 => {
                    let n = r.range(1, 5);
                    let size = match r.below(6) { 0 => 0, 1 => r.range(1, 20), 2 => r.range(100, 3000), _ => r.range(20, 200) };
                    if r.chance(0.08) {
                        // the disk is full while this append runs; afterwards space is back and the caller retries
                        ops.push(Op::FileSizeLimit { limit: 0 });
                        ops.push(Op::Append { start: next_index, n, term, size });
                        ops.push(Op::FileSizeLimit { limit: u64::MAX });
                        if r.chance(0.7) {
                            ops.push(Op::Append { start: next_index, n, term, size });
                        }
                    } else {
                        ops.push(Op::Append { start: next_index, n, term, size });
                    }
                    next_index += n;
                }
                5 => {
                    if next_index > purged + 2 {
                        let idx = r.range(purged + 1, next_index - 1);
                        ops.push(Op::Truncate { index: idx, term });
                        next_index = idx;
                        term += 1;
                    }
                }
                6 => {
                    if next_index > purged + 1 {
                        let idx = r.range(purged + 1, next_index - 1);
                        ops.push(Op::Purge { index: idx, term });
                        purged = idx;
                    }
                }
                7 => ops.push(Op::SaveVote { term: term + r.below(2), node: r.range(1, 3), committed: r.chance(0.5) }),
                8 => ops.push(Op::SaveCommitted { term, index: if next_index > 1 && r.chance(0.9) { Some(r.range(purged.max(1), next_index - 1)) } else { None } }),
                _ => {
                    peer_id += 1;
                    ops.push(Op::PeerRecord { id: peer_id });
                }
            }
        }
        let end: String = if r.chance(0.5) { "clean".into() } else { "kill".into() };
        // own PRNG stream for the crash decisions, so that the histories themselves are those of the earlier rounds
        let mut rc = Rng(crate::mix(seed, 0x2100 + k));
        let has_limit = ops.iter().any(|o| matches!(o, Op::FileSizeLimit { .. }));
        let records: u64 = ops.iter().map(|o| if let Op::Append { n, .. } = o { *n } else { 1 }).sum();
        let crash = if k + 1 < n_inc && !has_limit && !ops.is_empty() && rc.chance(0.3) {
            // a record costs about two calls (write + sync) with flush 0 and one otherwise; beyond the last call = plain kill
            Some(Crash { phase: "ops".into(), at: rc.range(1, records.min(40) * 2 + 1), torn: if rc.chance(0.35) { rc.range(1, 300) } else { 0 } })
        } else if k > 0 && k + 1 < n_inc && rc.chance(0.1) {
            Some(Crash { phase: "open".into(), at: rc.range(1, 10), torn: if rc.chance(0.35) { rc.range(1, 40) } else { 0 } })
        } else {
            None
        };
        incs.push(Inc { ops, end, crash });
    }
    Plan { seed, flush_ms: *[0u64, 100, 100].get(r.below(3) as usize).unwrap(), incs }
}

pub fn run_child(plan_path: &str, inc_idx: usize) -> i32 {
    let plan: Plan = match std::fs::read(plan_path).ok().and_then(|b| serde_json::from_slice(&b).ok()) {
        Some(p) => p,
        None => return 2,
    };
    std::env::set_var("WALRUS_QUIET", "1");
    tokio::sim::init(tokio::sim::Config { seed: plan.seed, ..Default::default() });
    let inc = plan.incs[inc_idx].clone();
    if let Some(c) = inc.crash.as_ref().filter(|c| c.phase == "open") {
        crate::iohook::arm(c.at, c.torn);
    }
    let dir = std::env::current_dir().unwrap().join("raft_meta");
    let mut state = State::default();
    let mut acked_file = std::fs::OpenOptions::new().create(true).append(true).open(format!("acked.{}", inc_idx)).unwrap();
    tokio::sim::block_on(async {
        let flush = Duration::from_millis(plan.flush_ms);
        let wal = match WriteAheadLog::new(dir.join("raft.log"), 0, flush).await {
            Ok(w) => Arc::new(w),
            Err(e) => {
                state.open_error = Some(e.to_string());
                return;
            }
        };
        let peers = match WriteAheadLog::new(dir.join("peers.log"), 0, flush).await {
            Ok(w) => Arc::new(w),
            Err(e) => {
                state.open_error = Some(e.to_string());
                return;
            }
        };
        let mut store = match WalLogStore::new(wal.clone()).await {
            Ok(s) => s,
            Err(e) => {
                state.open_error = Some(e.to_string());
                return;
            }
        };
        // report what the reopened store says
        if let Ok(ls) = store.get_log_state().await {
            state.last_purged = ls.last_purged_log_id.map(|l| (l.leader_id.term, l.index));
            state.last_log = ls.last_log_id.map(|l| (l.leader_id.term, l.index));
        }
        state.vote = store.read_vote().await.ok().flatten().map(|v| (v.leader_id.term, v.leader_id.node_id, v.committed));
        state.committed = store.read_committed().await.ok().flatten().map(|l| (l.leader_id.term, l.index));
        if let Ok(es) = store.try_get_log_entries(0..u64::MAX).await {
            for e in es {
                let h = match &e.payload {
                    EntryPayload::Normal(d) => hash(&d.0),
                    _ => 0,
                };
                state.entries.push((e.log_id.index, e.log_id.leader_id.term, h));
            }
        }
        let mut book: Vec<(u64, String)> = peerbook::load(&peers).await.into_iter().map(|(k, v)| (k, v.to_string())).collect();
        book.sort();
        state.peers = book;
        // first line of output: the state after reopen (written before any further op, so a kill cannot lose it)
        println!("{}", serde_json::to_string(&state).unwrap());
        use std::io::Write;
        let _ = std::io::stdout().flush();
        crate::iohook::disarm();
        if let Some(c) = inc.crash.as_ref().filter(|c| c.phase == "ops") {
            crate::iohook::arm(c.at, c.torn);
        }
        for (k, op) in inc.ops.iter().enumerate() {
            let ok = match op {
                Op::Append { start, n, term, size } => {
                    let entries: Vec<Entry<AppTypeConfig>> = (0..*n)
                        .map(|i| Entry { log_id: LogId::new(*term, 1, start + i), payload: EntryPayload::Normal(AppEntry(payload(plan.seed, start + i, *term, *size))) })
                        .collect();
                    let (cb, done) = IOFlushed::new();
                    store.append(entries, cb).await.is_ok() && done.get() == Some(true)
                }
                Op::Truncate { index, term } => store.truncate(LogId::new(*term, 1, *index)).await.is_ok(),
                Op::Purge { index, term } => store.purge(LogId::new(*term, 1, *index)).await.is_ok(),
                Op::SaveVote { term, node, committed } => store.save_vote(&Vote { leader_id: LeaderId { term: *term, node_id: *node }, committed: *committed }).await.is_ok(),
                Op::SaveCommitted { term, index } => store.save_committed(index.map(|i| LogId::new(*term, 1, i))).await.is_ok(),
                Op::PeerRecord { id } => {
                    let (peer, addr) = peer_of(*id);
                    peerbook::record(&peers, peer, addr).await
                }
                Op::FileSizeLimit { limit } => {
                    unsafe {
                        libc::signal(libc::SIGXFSZ, libc::SIG_IGN);
                        let lim = libc::rlimit { rlim_cur: if *limit == u64::MAX { libc::RLIM_INFINITY } else { *limit as libc::rlim_t }, rlim_max: libc::RLIM_INFINITY };
                        libc::setrlimit(libc::RLIMIT_FSIZE, &lim);
                    }
                    false
                }
            };
            if ok {
                // acknowledgements go to the parent through stdout (a pipe: the file-size limit does not apply to it)
                println!("ACK {}", k);
                let _ = std::io::stdout().flush();
                let _ = writeln!(acked_file, "{}", k);
            }
        }
        crate::iohook::disarm();
        // the limit must not outlive the operations (the clean shutdown below may write)
        unsafe {
            let lim = libc::rlimit { rlim_cur: libc::RLIM_INFINITY, rlim_max: libc::RLIM_INFINITY };
            libc::setrlimit(libc::RLIMIT_FSIZE, &lim);
        }
        if inc.end == "clean" {
            drop(store);
            drop(wal);
            drop(peers);
        }
    });
    if state.open_error.is_some() {
        println!("{}", serde_json::to_string(&state).unwrap());
    }
    unsafe { libc::_exit(0) }
}

// ---------------------------------------------------------------------------
// parent-side model
// ---------------------------------------------------------------------------
#[derive(Default, Clone, Debug)]
pub struct Model {
    pub log: BTreeMap<u64, (u64, u64)>, // index -> (term, payload hash)
    pub vote: Option<(u64, u64, bool)>,
    pub committed: Option<(u64, u64)>,
    pub purged: Option<(u64, u64)>,
    pub peers: BTreeMap<u64, String>,
}

impl Model {
    pub fn apply(&mut self, seed: u64, op: &Op) {
        match op {
            Op::Append { start, n, term, size } => {
                for i in 0..*n {
                    self.log.insert(start + i, (*term, hash(&payload(seed, start + i, *term, *size))));
                }
            }
            Op::Truncate { index, .. } => {
                let keys: Vec<u64> = self.log.range(*index..).map(|(k, _)| *k).collect();
                for k in keys {
                    self.log.remove(&k);
                }
            }
            Op::Purge { index, term } => {
                let keys: Vec<u64> = self.log.range(..=*index).map(|(k, _)| *k).collect();
                for k in keys {
                    self.log.remove(&k);
                }
                self.purged = Some((*term, *index));
            }
            Op::SaveVote { term, node, committed } => self.vote = Some((*term, *node, *committed)),
            Op::SaveCommitted { term, index } => self.committed = index.map(|i| (*term, i)),
            Op::PeerRecord { id } => {
                let (peer, addr) = peer_of(*id);
                self.peers.insert(peer, addr.to_string());
            }
            Op::FileSizeLimit { .. } => {}
        }
    }

    /// states the store may be in when `op` was in flight at a process crash: not reflected, reflected, or - an
    /// append persists one record per entry - reflected up to any entry
    pub fn candidates(&self, seed: u64, op: Option<&Op>) -> Vec<Model> {
        let mut v = vec![self.clone()];
        match op {
            Some(Op::Append { start, n, term, size }) => {
                for j in 1..=*n {
                    let mut m = self.clone();
                    m.apply(seed, &Op::Append { start: *start, n: j, term: *term, size: *size });
                    v.push(m);
                }
            }
            Some(Op::FileSizeLimit { .. }) | None => {}
            Some(o) => {
                let mut m = self.clone();
                m.apply(seed, o);
                v.push(m);
            }
        }
        v
    }

    pub fn expected(&self) -> State {
        let last = self.log.iter().next_back().map(|(i, (t, _))| (*t, *i)).or(self.purged);
        State {
            open_error: None,
            last_purged: self.purged,
            last_log: last,
            vote: self.vote,
            committed: self.committed,
            entries: self.log.iter().map(|(i, (t, h))| (*i, *t, *h)).collect(),
            peers: self.peers.iter().map(|(k, v)| (*k, v.clone())).collect(),
            acked: 0,
        }
    }
}
