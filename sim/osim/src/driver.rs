//! Parent: seeded search, known findings, replay files, evidence (same conventions as wsim/dsim).
use crate::c20::{ChildResult, Finding};
use crate::c21;
use serde::{Deserialize, Serialize};
use std::collections::{BTreeMap, BTreeSet};
use std::path::PathBuf;
use std::process::{Command, Stdio};
use std::sync::atomic::{AtomicU64, Ordering};
use std::sync::Mutex;
use std::time::{Duration, Instant};

fn verif_root() -> PathBuf {
    PathBuf::from(std::env::var("VERIF_ROOT").unwrap_or_else(|_| "/verif".into()))
}

#[derive(Serialize, Deserialize, Clone, Debug)]
struct KnownEntry {
    #[serde(default)]
    status: String,
    property: String,
    rule: String,
    #[serde(default)]
    r#match: BTreeMap<String, serde_json::Value>,
    summary: String,
}

fn load_known() -> Vec<KnownEntry> {
    let p = verif_root().join("known_findings.json");
    match std::fs::read(&p) {
        Ok(b) => serde_json::from_slice::<Vec<KnownEntry>>(&b).unwrap_or_else(|e| {
            eprintln!("osim: cannot parse {}: {}", p.display(), e);
            std::process::exit(2)
        }),
        Err(_) => vec![],
    }
}

fn known_match<'a>(known: &'a [KnownEntry], prop: &str, f: &Finding) -> Option<&'a KnownEntry> {
    known.iter().find(|k| k.status != "fixed" && k.property == prop && k.rule == f.rule && k.r#match.iter().all(|(fk, fv)| f.facts.get(fk) == Some(fv)))
}

#[derive(Serialize, Deserialize, Clone, Debug)]
struct ReplayFile {
    simulator: String,
    property: String,
    rule: String,
    detail: String,
    facts: BTreeMap<String, serde_json::Value>,
    seed_r: u64,
    scale: u64,
    plan: Option<c21::Plan>,
}

static CTR: AtomicU64 = AtomicU64::new(0);

fn scratch() -> PathBuf {
    let n = CTR.fetch_add(1, Ordering::SeqCst);
    let d = PathBuf::from(std::env::var("WSIM_SCRATCH").unwrap_or_else(|_| "/dev/shm/wsim".into())).join(format!("{}-o{}", std::process::id(), n));
    let _ = std::fs::remove_dir_all(&d);
    std::fs::create_dir_all(&d).unwrap();
    d
}

fn run_cmd(dir: &PathBuf, args: &[String]) -> Result<(String, Option<i32>), String> {
    let exe = std::env::current_exe().map_err(|e| e.to_string())?;
    let mut child = Command::new(exe).args(args).current_dir(dir).env("WALRUS_QUIET", "1").env_remove("WALRUS_DATA_DIR").stdin(Stdio::null()).stdout(Stdio::piped()).stderr(Stdio::piped()).spawn().map_err(|e| e.to_string())?;
    let start = Instant::now();
    loop {
        match child.try_wait() {
            Ok(Some(_)) => break,
            Ok(None) => {
                if start.elapsed() > Duration::from_secs(40) {
                    let _ = child.kill();
                    let _ = child.wait();
                    return Err("watchdog".into());
                }
                std::thread::sleep(Duration::from_millis(2));
            }
            Err(e) => return Err(e.to_string()),
        }
    }
    let out = child.wait_with_output().map_err(|e| e.to_string())?;
    Ok((String::from_utf8_lossy(&out.stdout).into_owned(), out.status.code()))
}

fn run_c20(seed_r: u64, scale: u64) -> Result<ChildResult, String> {
    let dir = scratch();
    let r = run_cmd(&dir, &["child20".into(), seed_r.to_string(), scale.to_string()]);
    let _ = std::fs::remove_dir_all(&dir);
    let (out, code) = r?;
    out.lines().rev().find(|l| l.starts_with('{')).and_then(|l| serde_json::from_str(l).ok()).ok_or_else(|| format!("child20 exit {:?}: {}", code, out.chars().take(300).collect::<String>()))
}

/// Execute a C21 plan: one process per incarnation; compare what each reopened store reports with
/// the model of acknowledged operations.
fn run_c21_plan(plan: &c21::Plan) -> Result<ChildResult, String> {
    let dir = scratch();
    std::fs::write(dir.join("plan.json"), serde_json::to_vec(plan).unwrap()).map_err(|e| e.to_string())?;
    let mut model = c21::Model::default();
    let mut res = ChildResult::default();
    let mut reopen_no = 0u64;
    // the operation that was in flight when the previous incarnation was ended by an injected crash
    let mut pending: Option<c21::Op> = None;
    for (i, inc) in plan.incs.iter().enumerate() {
        let (out, code) = match run_cmd(&dir, &["child21".into(), "plan.json".into(), i.to_string()]) {
            Ok(x) => x,
            Err(e) => {
                let _ = std::fs::remove_dir_all(&dir);
                return Err(format!("{} (C21 plan seed {}, incarnation {}, crash {:?}, ops {})", e, plan.seed, i, inc.crash, inc.ops.len()));
            }
        };
        let crash_line: Option<String> = out.lines().find(|l| l.starts_with("CRASH ")).map(|l| l.to_string());
        let state: Option<c21::State> = out.lines().find(|l| l.starts_with('{')).and_then(|l| serde_json::from_str(l).ok());
        let Some(state) = state else {
            if crash_line.is_some() && inc.crash.as_ref().map(|c| c.phase == "open").unwrap_or(false) {
                // the injected crash ended the process while it was reopening the store: nothing was reported,
                // nothing was executed; the next incarnation reopens what this one left behind
                *res.stats.entry("fault.crash_during_reopen".into()).or_insert(0) += 1;
                reopen_no += 1;
                continue;
            }
            res.findings.push(Finding { rule: "c21.reopen_died".into(), detail: format!("incarnation {} produced no state report (exit {:?})", i, code), facts: BTreeMap::new() });
            break;
        };
        let mut facts = BTreeMap::new();
        facts.insert("reopen_number".to_string(), serde_json::json!(reopen_no));
        facts.insert("second_or_later_reopen".to_string(), serde_json::json!(reopen_no >= 2));
        if let Some(e) = &state.open_error {
            res.findings.push(Finding { rule: "c21.open_failed".into(), detail: format!("reopen #{} failed: {}", reopen_no, e), facts: facts.clone() });
            break;
        }
        if i > 0 {
            res.nontrivial = true;
            facts.insert("op_in_flight_at_crash".to_string(), serde_json::json!(pending.is_some()));
            let diffs_of = |exp: &c21::State| -> Vec<String> {
                let mut diffs = Vec::new();
                if state.entries != exp.entries {
                    diffs.push(format!("log entries: store has {} (first {:?}), acknowledged {} (first {:?})", state.entries.len(), state.entries.first(), exp.entries.len(), exp.entries.first()));
                }
                if state.vote != exp.vote {
                    diffs.push(format!("vote {:?} vs acknowledged {:?}", state.vote, exp.vote));
                }
                if state.committed != exp.committed {
                    diffs.push(format!("committed {:?} vs acknowledged {:?}", state.committed, exp.committed));
                }
                if state.last_purged != exp.last_purged {
                    diffs.push(format!("purge point {:?} vs acknowledged {:?}", state.last_purged, exp.last_purged));
                }
                if state.last_log != exp.last_log && state.entries == exp.entries {
                    diffs.push(format!("last log id {:?} vs {:?}", state.last_log, exp.last_log));
                }
                diffs
            };
            // acknowledged operations are reflected; the one in flight at an injected crash may be reflected or not
            let cands = model.candidates(plan.seed, pending.as_ref());
            let hit = cands.iter().position(|m| {
                let e = m.expected();
                diffs_of(&e).is_empty() && state.peers == e.peers
            });
            if let Some(h) = hit {
                if pending.is_some() {
                    *res.stats.entry(if h == 0 { "in_flight_op.not_reflected" } else { "in_flight_op.reflected" }.to_string()).or_insert(0) += 1;
                }
                model = cands[h].clone();
            } else {
                // report against the candidate that agrees on the address book (or the plain model)
                let exp = cands.iter().map(|m| m.expected()).find(|e| diffs_of(e).is_empty()).unwrap_or_else(|| model.expected());
                let diffs = diffs_of(&model.expected());
                let log_ok = cands.iter().any(|m| diffs_of(&m.expected()).is_empty());
                if !log_ok {
                    let all_lost = state.entries.is_empty() && state.vote.is_none() && state.committed.is_none() && state.last_purged.is_none();
                    facts.insert("everything_lost".to_string(), serde_json::json!(all_lost));
                    res.findings.push(Finding { rule: "c21.log_store_state".into(), detail: format!("reopen #{} (previous incarnation ended '{}'{}): {}", reopen_no, plan.incs[i - 1].end, pending.as_ref().map(|o| format!(", crashed inside {:?}", o)).unwrap_or_default(), diffs.join("; ")), facts: facts.clone() });
                }
                if state.peers != exp.peers {
                    let all_lost = state.peers.is_empty();
                    let mut f2 = facts.clone();
                    f2.insert("everything_lost".to_string(), serde_json::json!(all_lost));
                    res.findings.push(Finding { rule: "c21.peer_records".into(), detail: format!("reopen #{}: address-book records {:?} vs acknowledged {:?}", reopen_no, state.peers, exp.peers), facts: f2 });
                }
            }
            pending = None;
            if !res.findings.is_empty() {
                break;
            }
        }
        reopen_no += 1;
        // acknowledged operations of this incarnation
        let mut acked: BTreeSet<usize> = std::fs::read_to_string(dir.join(format!("acked.{}", i))).unwrap_or_default().lines().filter_map(|l| l.parse().ok()).collect();
        // acknowledgements also arrive on stdout (the file may be unwritable while the disk-full fault is active)
        acked.extend(out.lines().filter_map(|l| l.strip_prefix("ACK ")).filter_map(|l| l.trim().parse::<usize>().ok()));
        if inc.crash.as_ref().map(|c| c.phase == "ops").unwrap_or(false) {
            match crash_line.as_ref() {
                Some(l) => {
                    *res.stats.entry("fault.crash_inside_op".into()).or_insert(0) += 1;
                    *res.stats.entry(format!("fault.crash_before.{}", l.split_whitespace().nth(2).unwrap_or("?"))).or_insert(0) += 1;
                }
                None => *res.stats.entry("fault.crash_point_not_reached".into()).or_insert(0) += 1,
            }
        }
        let mut disk_full = false;
        for (k, op) in inc.ops.iter().enumerate() {
            if let c21::Op::FileSizeLimit { limit } = op {
                disk_full = *limit != u64::MAX;
                *res.stats.entry("fault.disk_full".into()).or_insert(0) += disk_full as u64;
                continue;
            }
            if acked.contains(&k) {
                // an operation acknowledged while the disk was full counts as acknowledged like any other
                if disk_full {
                    *res.stats.entry("acked_while_disk_full".into()).or_insert(0) += 1;
                }
                model.apply(plan.seed, op);
            } else if crash_line.is_some() {
                // the process was ended inside (or just before) this operation; the later ones never ran
                pending = Some(op.clone());
                break;
            } else if disk_full {
                // the injected fault may make the operation fail; a failed operation is not acknowledged
                *res.stats.entry("failed_while_disk_full".into()).or_insert(0) += 1;
            } else {
                res.findings.push(Finding { rule: "c21.op_failed".into(), detail: format!("incarnation {} op {} {:?} was not acknowledged", i, k, op), facts: BTreeMap::new() });
            }
        }
    }
    let _ = std::fs::remove_dir_all(&dir);
    res.stats.insert("incarnations".into(), plan.incs.len() as u64);
    res.stats.insert("ops".into(), plan.incs.iter().map(|i| i.ops.len() as u64).sum());
    res.stats.insert(format!("end.{}", plan.incs.first().map(|i| i.end.clone()).unwrap_or_default()), 1);
    res.key = {
        let s = serde_json::to_string(plan).unwrap();
        s.bytes().fold(0xcbf29ce484222325u64, |h, b| (h ^ b as u64).wrapping_mul(0x00000100000001B3))
    };
    let d = format!("{:?}", res.findings);
    res.digest = d.bytes().fold(0xcbf29ce484222325u64, |h, b| (h ^ b as u64).wrapping_mul(0x00000100000001B3));
    res.sample = serde_json::to_value(plan).unwrap();
    Ok(res)
}

fn run_one(id: &str, seed_r: u64, scale: u64) -> Result<(ChildResult, Option<c21::Plan>), String> {
    if id == "C20" {
        run_c20(seed_r, scale).map(|r| (r, None))
    } else {
        let plan = c21::gen_plan(seed_r, scale);
        run_c21_plan(&plan).map(|r| (r, Some(plan)))
    }
}

fn rule_text(id: &str) -> &'static str {
    if id == "C20" {
        "seeded sequences of 2-60 accepted metadata commands applied in batches of 1-8 as openraft entries through the real MemStateMachine adapter over the real Metadata state machine, the entry stream not ready at a seeded subset of its polls; 1-3 build_snapshot tasks started before seeded batches race with the applies on the simulator's executor; each snapshot is installed into a fresh adapter with a fresh Metadata, whose state (read through get_topic_state / all_node_addrs, not through snapshot()) must equal a replica that applied exactly the entries 1..=last_log_id of the snapshot, and the sender's after the remaining commands; applied log ids must agree; Metadata::snapshot -> restore into a fresh instance is repeated on the same instance with a rollover in between; non-trivial = the final state was non-empty"
    } else {
        "seeded histories of append / truncate / purge / save_vote / save_committed on the real WalLogStore over the real WriteAheadLog and vendored engine copy, plus peer-address records written and loaded through the real functions of octopii/src/openraft/node.rs (cut out by build.rs; three peers whose addresses change) on a second WriteAheadLog; 8% of the appends run with the disk full (RLIMIT_FSIZE 0, SIGXFSZ ignored) and are retried once space is back; 1-4 reopen events, each incarnation a fresh OS process ending cleanly (drop), killed right after the last acknowledged operation, or - 30% of the working incarnations - ended by an injected process crash before the k-th intercepted I/O call of its operations (positional write, optionally torn after a seeded prefix, fsync/fdatasync, truncate, rename; the libc entry points are defined by the harness binary), and 10% of the reopening incarnations crash inside the reopen itself; 5% of the histories start with 1900-2400 records and 4% with more than 10 MiB of records (recovery replays in batches capped at 2000 records / 10 MiB); oracle: a BTreeMap model of the acknowledged operations (an operation that returned success counts, also while the disk was full) compared with get_log_state, read_vote, read_committed, try_get_log_entries(..) and the loaded address book after every reopen - the operation in flight at an injected crash may be reflected or not (an append: up to any of its entries); non-trivial = at least one reopen was compared"
    }
}

pub fn run_check(id: &str, tier: &str) -> i32 {
    if !["C20", "C21"].contains(&id) {
        eprintln!("osim: unknown property {}", id);
        return 2;
    }
    let t0 = Instant::now();
    let thorough = tier == "thorough";
    let base_seed: u64 = std::env::var("VERIF_SEED").ok().and_then(|s| s.parse().ok()).unwrap_or(1);
    // fixed number of runs per tier (~40 s / ~300 s on the reference VM); wall-clock cap only as a safety net;
    // VERIF_BUDGET_S alone keeps the old "as many as fit" behaviour for sweeps
    let budget_env: Option<u64> = std::env::var("VERIF_BUDGET_S").ok().and_then(|s| s.parse().ok());
    let budget_s: u64 = budget_env.unwrap_or(if thorough { 1500 } else { 200 });
    let workers: usize = std::env::var("VERIF_WORKERS").ok().and_then(|s| s.parse().ok()).unwrap_or(8);
    let q_runs: u64 = if id == "C20" { 8000 } else { 2000 };
    let max_runs: u64 = std::env::var("VERIF_MAX_RUNS")
        .ok()
        .and_then(|s| s.parse().ok())
        .unwrap_or(if budget_env.is_some() { u64::MAX } else if thorough { q_runs * 3 } else { q_runs });
    println!("osim: property={} tier={} VERIF_SEED={} runs={} cap={}s workers={}", id, tier, base_seed, if max_runs == u64::MAX { "unbounded".to_string() } else { max_runs.to_string() }, budget_s, workers);
    let deadline = t0 + Duration::from_secs(budget_s);
    let next = AtomicU64::new(0);
    struct Agg {
        runs: u64,
        keys: BTreeSet<u64>,
        findings: Vec<(u64, u64, Finding, Option<c21::Plan>)>,
        samples: Vec<serde_json::Value>,
        stats: BTreeMap<String, u64>,
        errors: Vec<String>,
        nondet: u64,
        rechecked: u64,
    }
    let agg = Mutex::new(Agg { runs: 0, keys: BTreeSet::new(), findings: vec![], samples: vec![], stats: BTreeMap::new(), errors: vec![], nondet: 0, rechecked: 0 });
    let idh = id.bytes().fold(0xcbf29ce484222325u64, |h, b| (h ^ b as u64).wrapping_mul(0x00000100000001B3));
    let digest_log: Option<Mutex<std::fs::File>> = std::env::var("VERIF_DIGEST_LOG").ok().and_then(|p| std::fs::File::create(p).ok()).map(Mutex::new);
    std::thread::scope(|s| {
        for _ in 0..workers {
            s.spawn(|| loop {
                if Instant::now() >= deadline {
                    break;
                }
                let i = next.fetch_add(1, Ordering::SeqCst);
                if i >= max_runs {
                    break;
                }
                let seed_r = crate::mix(crate::mix(base_seed, idh), i);
                let r = run_one(id, seed_r, 100);
                if let (Some(l), Ok((res, _))) = (digest_log.as_ref(), r.as_ref()) {
                    use std::io::Write;
                    let _ = writeln!(l.lock().unwrap(), "{} {} {:016x}", i, seed_r, res.digest);
                }
                let again = if i % 50 == 7 { Some(run_one(id, seed_r, 100)) } else { None };
                let mut a = agg.lock().unwrap();
                a.runs += 1;
                match r {
                    Ok((res, plan)) => {
                        if let Some(Ok((r2, _))) = again {
                            a.rechecked += 1;
                            if r2.digest != res.digest {
                                a.nondet += 1;
                            }
                        }
                        if res.nontrivial {
                            a.keys.insert(res.key);
                        }
                        for (k, v) in res.stats.iter() {
                            *a.stats.entry(k.clone()).or_insert(0) += v;
                        }
                        if a.samples.len() < 3 {
                            a.samples.push(res.sample.clone());
                        }
                        for f in res.findings {
                            a.findings.push((i, seed_r, f, plan.clone()));
                        }
                    }
                    Err(e) => a.errors.push(e),
                }
            });
        }
    });
    let mut a = agg.into_inner().unwrap();
    let known = load_known();
    a.findings.sort_by_key(|(i, _, f, _)| (f.rule.clone(), *i));
    let mut known_hits: BTreeMap<String, (u64, String)> = BTreeMap::new();
    let mut new_by_rule: BTreeMap<String, Vec<(u64, Finding, Option<c21::Plan>)>> = BTreeMap::new();
    for (_, s, f, p) in a.findings.iter() {
        if let Some(k) = known_match(&known, id, f) {
            let e = known_hits.entry(format!("{} {}", k.rule, k.summary)).or_insert((0, f.detail.clone()));
            e.0 += 1;
        } else {
            new_by_rule.entry(f.rule.clone()).or_default().push((*s, f.clone(), p.clone()));
        }
    }
    let replay_dir = std::env::var("VERIF_REPLAY_DIR").map(PathBuf::from).unwrap_or_else(|_| verif_root().join("replays"));
    let _ = std::fs::create_dir_all(&replay_dir);
    let mut lines = Vec::new();
    for (rule, list) in new_by_rule.iter() {
        let (seed_r, f, plan) = &list[0];
        // minimise: smaller scale under the same seed
        let mut best = (100u64, f.clone(), plan.clone());
        for scale in [10u64, 25, 50] {
            if let Ok((r, p)) = run_one(id, *seed_r, scale) {
                if let Some(ff) = r.findings.iter().find(|x| &x.rule == rule && known_match(&known, id, x).is_none()) {
                    best = (scale, ff.clone(), p);
                    break;
                }
            }
        }
        let rf = ReplayFile { simulator: "osim".into(), property: id.into(), rule: rule.clone(), detail: best.1.detail.clone(), facts: best.1.facts.clone(), seed_r: *seed_r, scale: best.0, plan: best.2.clone() };
        let path = replay_dir.join(format!("{}-{}-{}.json", id, rule.replace('.', "_"), seed_r));
        std::fs::write(&path, serde_json::to_vec_pretty(&rf).unwrap()).expect("replay");
        println!("finding: rule={} occurrences={} scale={} detail: {}", rule, list.len(), best.0, best.1.detail);
        println!("  facts: {}", serde_json::to_string(&best.1.facts).unwrap());
        lines.push(format!("VIOLATION property={} replay={}", id, path.display()));
    }
    for (k, (n, d)) in known_hits.iter() {
        println!("KNOWN-FINDING: property={} {} (seen {} times; e.g. {})", id, k, n, d.chars().take(160).collect::<String>());
    }
    let wall = t0.elapsed().as_secs_f64();
    let ev = serde_json::json!({
        "property_id": id, "tier": tier, "seed": base_seed, "level": "exploration",
        "coverage": {
            "evaluations": a.runs,
            "distinct_nontrivial": a.keys.len(),
            "rule": rule_text(id),
            "samples": a.samples,
            "simulated_runs": a.runs,
            "runs_per_hour": if wall > 0.0 { (a.runs as f64 / wall * 3600.0) as u64 } else { 0 },
            "faults_fired": a.stats.iter().filter(|(k, _)| k.starts_with("end.")).collect::<BTreeMap<_, _>>(),
            "probes": a.stats,
            "determinism_rechecks": a.rechecked,
            "determinism_mismatches": a.nondet,
            "components": {
                "real": ["octopii/src/openraft/storage.rs, openraft/types.rs, wal/mod.rs, wal/wal/** (vendored engine copy), state_machine.rs, error.rs and distributed-walrus/src/metadata.rs, included by path from /repo's working tree"],
                "stub": ["openraft = sim/shims/openraft (data types and storage trait signatures only)", "futures, quinn = minimal shims", "tokio = simulator shim (futures driven by block_on, virtual time)", "bincode = serde_json", "kill points are operation boundaries: the vendored engine copy has no I/O hooks", "node.rs (peer address helpers) cannot be compiled; its mechanism is exercised at the WriteAheadLog level"]
            },
            "known_findings_hit": known_hits.iter().map(|(k, v)| (k.clone(), v.0)).collect::<BTreeMap<_, _>>(),
            "harness_errors": a.errors.len(),
        },
        "assumptions": ["process-crash model (completed syscalls persist)", "seeded sampling"],
        "wall_s": wall,
        "violations": new_by_rule.len(),
    });
    let evdir = std::env::var("VERIF_EVIDENCE_DIR").map(PathBuf::from).unwrap_or_else(|_| verif_root().join("evidence"));
    let _ = std::fs::create_dir_all(&evdir);
    std::fs::write(evdir.join(format!("{}.json", id)), serde_json::to_vec_pretty(&ev).unwrap()).expect("evidence");
    println!("osim: {} runs, {} distinct non-trivial, {:.1}s, violations={}, known={}, harness_errors={}, nondet={}", a.runs, a.keys.len(), wall, new_by_rule.len(), known_hits.len(), a.errors.len(), a.nondet);
    for e in a.errors.iter().take(3) {
        println!("harness-error: {}", e.chars().take(300).collect::<String>());
    }
    if a.nondet > 0 {
        return 2;
    }
    if a.errors.len() as u64 * 10 > a.runs.max(1) || a.keys.len() < 2 {
        return 2;
    }
    for l in lines.iter() {
        println!("{}", l);
    }
    if lines.is_empty() {
        0
    } else {
        1
    }
}

pub fn replay(path: &str) -> i32 {
    let rf: ReplayFile = match std::fs::read(path).ok().and_then(|b| serde_json::from_slice(&b).ok()) {
        Some(r) => r,
        None => return 2,
    };
    let r = match (&rf.plan, rf.property.as_str()) {
        (Some(p), "C21") => run_c21_plan(p),
        _ => run_c20(rf.seed_r, rf.scale),
    };
    match r {
        Ok(res) => {
            for f in res.findings.iter() {
                println!("  finding: {} {}", f.rule, f.detail);
            }
            if res.findings.iter().any(|f| f.rule == rf.rule) {
                println!("VIOLATION property={} replay={}", rf.property, path);
                1
            } else {
                println!("replay: the recorded violation did not reproduce");
                0
            }
        }
        Err(e) => {
            eprintln!("osim: {}", e);
            2
        }
    }
}
