//! osim: the real octopii storage adapter (openraft/storage.rs, openraft/types.rs), WAL wrapper
//! (wal/mod.rs) and vendored engine copy (wal/wal/**), plus the real distributed-walrus
//! Metadata state machine, compiled against type-only shims of openraft/futures/quinn and the
//! simulator's tokio. Decides C20 (snapshot transfer) and C21 (log store across restarts).
//!
//!   osim child20 <seed>                 one C20 run (single process), prints JSON
//!   osim child21 <plan.json> <inc>      one incarnation of a C21 history, prints JSON state
//!   osim run C20|C21 quick|thorough
//!   osim replay <file>
#![allow(dead_code, unused_imports, unused_variables, unused_mut)]

#[path = "/repo/octopii/src/error.rs"]
mod error;
#[path = "/repo/octopii/src/state_machine.rs"]
mod state_machine;
#[path = "/repo/octopii/src/wal/mod.rs"]
mod wal;
mod openraft {
    #[path = "/repo/octopii/src/openraft/storage.rs"]
    pub mod storage;
    #[path = "/repo/octopii/src/openraft/types.rs"]
    pub mod types;
}
#[path = "/repo/distributed-walrus/src/metadata.rs"]
mod metadata;

mod c20;
mod c21;
mod driver;
mod iohook;

pub fn mix(a: u64, b: u64) -> u64 {
    let mut x = a ^ b.rotate_left(32) ^ 0xD6E8FEB86659FD93;
    let mut next = || {
        x = x.wrapping_add(0x9E3779B97F4A7C15);
        let mut z = x;
        z = (z ^ (z >> 30)).wrapping_mul(0xBF58476D1CE4E5B9);
        z = (z ^ (z >> 27)).wrapping_mul(0x94D049BB133111EB);
        z ^ (z >> 31)
    };
    let r = next();
    r ^ next()
}

pub struct Rng(pub u64);
impl Rng {
    pub fn next(&mut self) -> u64 {
        self.0 = self.0.wrapping_add(0x9E3779B97F4A7C15);
        let mut z = self.0;
        z = (z ^ (z >> 30)).wrapping_mul(0xBF58476D1CE4E5B9);
        z = (z ^ (z >> 27)).wrapping_mul(0x94D049BB133111EB);
        z ^ (z >> 31)
    }
    pub fn below(&mut self, n: u64) -> u64 {
        if n == 0 {
            0
        } else {
            self.next() % n
        }
    }
    pub fn range(&mut self, lo: u64, hi: u64) -> u64 {
        lo + self.below(hi - lo + 1)
    }
    pub fn chance(&mut self, p: f64) -> bool {
        ((self.next() >> 11) as f64) * (1.0 / ((1u64 << 53) as f64)) < p
    }
}

fn main() {
    let args: Vec<String> = std::env::args().collect();
    let code = match args.get(1).map(|s| s.as_str()) {
        Some("child20") => c20::run_child(args.get(2).and_then(|s| s.parse().ok()).unwrap_or(1), args.get(3).and_then(|s| s.parse().ok()).unwrap_or(100)),
        Some("child21") => c21::run_child(args.get(2).map(|s| s.as_str()).unwrap_or(""), args.get(3).and_then(|s| s.parse().ok()).unwrap_or(0)),
        Some("run") => driver::run_check(args.get(2).map(|s| s.as_str()).unwrap_or(""), args.get(3).map(|s| s.as_str()).unwrap_or("quick")),
        Some("replay") => driver::replay(args.get(2).map(|s| s.as_str()).unwrap_or("")),
        _ => {
            eprintln!("usage: osim run C20|C21 quick|thorough | replay <file>");
            2
        }
    };
    std::process::exit(code);
}
