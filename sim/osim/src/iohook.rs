//! I/O seam for the vendored engine copy under octopii/src/wal/wal, which has no hooks of its own: the osim binary
//! defines the libc entry points the engine's file I/O goes through (positional write, the sync calls, truncate,
//! rename). Definitions in the executable take precedence over the shared libc, so every such call made by the real
//! code lands here; the real effect is performed with a raw system call. While armed, calls are numbered and the
//! process can be ended before the k-th one (after writing a seeded prefix of a positional write: a torn write).
use std::sync::atomic::{AtomicBool, AtomicU64, Ordering};

static ARMED: AtomicBool = AtomicBool::new(false);
static COUNT: AtomicU64 = AtomicU64::new(0);
static CRASH_AT: AtomicU64 = AtomicU64::new(0);
static TORN: AtomicU64 = AtomicU64::new(0);
/// only calls of the thread that armed the hook (the one driving the operations) are numbered: the engine's
/// background flusher runs on real time and must not move the crash point
static OWNER: AtomicU64 = AtomicU64::new(0);

fn tid() -> u64 {
    unsafe { libc::syscall(libc::SYS_gettid) as u64 }
}

pub fn arm(crash_at: u64, torn: u64) {
    CRASH_AT.store(crash_at, Ordering::SeqCst);
    TORN.store(torn, Ordering::SeqCst);
    OWNER.store(tid(), Ordering::SeqCst);
    ARMED.store(true, Ordering::SeqCst);
}

pub fn disarm() {
    ARMED.store(false, Ordering::SeqCst);
}

pub fn calls() -> u64 {
    COUNT.load(Ordering::SeqCst)
}

/// true = the process must end before this call
fn tick() -> bool {
    if !ARMED.load(Ordering::SeqCst) || OWNER.load(Ordering::SeqCst) != tid() {
        return false;
    }
    let n = COUNT.fetch_add(1, Ordering::SeqCst) + 1;
    let at = CRASH_AT.load(Ordering::SeqCst);
    at != 0 && n == at
}

unsafe fn die(kind: &str) -> ! {
    let msg = format!("\nCRASH {} {}\n", COUNT.load(Ordering::SeqCst), kind);
    libc::syscall(libc::SYS_write, 1, msg.as_ptr(), msg.len());
    libc::_exit(77)
}

#[no_mangle]
pub unsafe extern "C" fn pwrite64(fd: libc::c_int, buf: *const libc::c_void, n: libc::size_t, off: libc::off64_t) -> libc::ssize_t {
    if tick() {
        let torn = TORN.load(Ordering::SeqCst) as usize;
        if torn > 0 && torn < n {
            libc::syscall(libc::SYS_pwrite64, fd, buf, torn, off);
            die("pwrite-torn");
        }
        die("pwrite");
    }
    libc::syscall(libc::SYS_pwrite64, fd, buf, n, off) as libc::ssize_t
}

#[no_mangle]
pub unsafe extern "C" fn pwrite(fd: libc::c_int, buf: *const libc::c_void, n: libc::size_t, off: libc::off_t) -> libc::ssize_t {
    pwrite64(fd, buf, n, off)
}

#[no_mangle]
pub unsafe extern "C" fn fsync(fd: libc::c_int) -> libc::c_int {
    if tick() {
        die("fsync");
    }
    libc::syscall(libc::SYS_fsync, fd) as libc::c_int
}

#[no_mangle]
pub unsafe extern "C" fn fdatasync(fd: libc::c_int) -> libc::c_int {
    if tick() {
        die("fdatasync");
    }
    libc::syscall(libc::SYS_fdatasync, fd) as libc::c_int
}

#[no_mangle]
pub unsafe extern "C" fn ftruncate64(fd: libc::c_int, len: libc::off64_t) -> libc::c_int {
    if tick() {
        die("ftruncate");
    }
    libc::syscall(libc::SYS_ftruncate, fd, len) as libc::c_int
}

#[no_mangle]
pub unsafe extern "C" fn rename(from: *const libc::c_char, to: *const libc::c_char) -> libc::c_int {
    if tick() {
        die("rename");
    }
    libc::syscall(libc::SYS_rename, from, to) as libc::c_int
}
