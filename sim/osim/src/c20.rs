//! C20: snapshot built by one adapter and installed into a fresh one (real MemStateMachine adapter
//! over the real Metadata state machine), plus Metadata::snapshot -> restore alone.
use crate::metadata::{Metadata, MetadataCmd};
use crate::openraft::storage::MemStateMachine;
use crate::openraft::types::{AppEntry, AppTypeConfig};
use crate::state_machine::{StateMachine, StateMachineTrait};
use crate::Rng;
use bytes::Bytes;
use openraft::storage::{ApplyResponder, EntryResponder, RaftSnapshotBuilder, RaftStateMachine};
use openraft::{Entry, EntryPayload, LogId};
use serde::{Deserialize, Serialize};
use std::collections::BTreeMap;
use std::sync::Arc;

/// Glue: distributed-walrus implements the `octopii` crate's trait; the adapter wants the trait
/// declared in octopii/src/state_machine.rs. Same four signatures; delegate.
struct Bridge(Arc<Metadata>);
impl StateMachineTrait for Bridge {
    fn apply(&self, command: &[u8]) -> Result<Bytes, String> {
        octopii::StateMachineTrait::apply(&*self.0, command)
    }
    fn snapshot(&self) -> Vec<u8> {
        octopii::StateMachineTrait::snapshot(&*self.0)
    }
    fn restore(&self, data: &[u8]) -> Result<(), String> {
        octopii::StateMachineTrait::restore(&*self.0, data)
    }
}

#[derive(Serialize, Deserialize, Clone, Debug, Default)]
pub struct Finding {
    pub rule: String,
    pub detail: String,
    pub facts: BTreeMap<String, serde_json::Value>,
}

#[derive(Serialize, Deserialize, Clone, Debug, Default)]
pub struct ChildResult {
    pub findings: Vec<Finding>,
    pub stats: BTreeMap<String, u64>,
    pub nontrivial: bool,
    pub key: u64,
    pub digest: u64,
    pub sample: serde_json::Value,
}

fn gen_cmds(r: &mut Rng, n: u64) -> Vec<MetadataCmd> {
    // only commands the state machine accepts: an apply error is fatal for a Raft node and ends the batch in the
    // adapter, which is not what this property is about (rollovers therefore name topics that exist)
    let mut created: std::collections::BTreeSet<String> = Default::default();
    let mut v = Vec::new();
    for _ in 0..n {
        let t = ["ta", "tb", "tc"][r.below(3) as usize].to_string();
        v.push(match r.below(10) {
            0..=2 => {
                created.insert(t.clone());
                MetadataCmd::CreateTopic { name: t, initial_leader: r.range(1, 3) }
            }
            3..=7 => {
                if created.contains(&t) {
                    MetadataCmd::RolloverTopic { name: t, new_leader: r.range(1, 3), sealed_segment_entry_count: r.below(9) }
                } else {
                    created.insert(t.clone());
                    MetadataCmd::CreateTopic { name: t, initial_leader: r.range(1, 3) }
                }
            }
            _ => MetadataCmd::UpsertNode { node_id: r.range(1, 4), addr: format!("10.0.0.{}:600{}", r.range(1, 4), r.range(1, 4)) },
        });
    }
    v
}

/// The application metadata as seen through its read accessors (not through `snapshot()`, which is under test).
fn view(m: &Metadata) -> serde_json::Value {
    let mut topics = BTreeMap::new();
    for t in ["ta", "tb", "tc"] {
        if let Some(st) = m.get_topic_state(t) {
            let mut v = serde_json::to_value(&st).unwrap_or(serde_json::Value::Null);
            // HashMap fields serialise in hash order; compare as sorted maps
            for f in ["sealed_segments", "segment_leaders"] {
                if let Some(o) = v.get(f).and_then(|x| x.as_object()).cloned() {
                    let sorted: BTreeMap<String, serde_json::Value> = o.into_iter().collect();
                    v[f] = serde_json::to_value(sorted).unwrap();
                }
            }
            topics.insert(t.to_string(), v);
        }
    }
    let mut nodes = m.all_node_addrs();
    nodes.sort();
    serde_json::json!({ "topics": topics, "nodes": nodes })
}

type Item = Result<EntryResponder<AppTypeConfig>, std::io::Error>;

/// Entries arrive from the log asynchronously: the stream is not ready at a seeded subset of its polls, so other
/// tasks (a snapshot build) run between two entries of one apply batch.
struct YieldingStream {
    items: std::collections::VecDeque<Item>,
    p_yield: f64,
}
impl futures::Stream for YieldingStream {
    type Item = Item;
    fn poll_next(mut self: std::pin::Pin<&mut Self>, cx: &mut std::task::Context<'_>) -> std::task::Poll<Option<Item>> {
        if !self.items.is_empty() && tokio::sim::chance(self.p_yield) {
            cx.waker().wake_by_ref();
            return std::task::Poll::Pending;
        }
        std::task::Poll::Ready(self.items.pop_front())
    }
}

fn entries_for(cmds: &[MetadataCmd], start_index: u64) -> std::collections::VecDeque<Item> {
    let mut items = std::collections::VecDeque::new();
    for (i, c) in cmds.iter().enumerate() {
        let data = bincode::serialize(c).unwrap();
        let entry = Entry { log_id: LogId::new(1, 1, start_index + i as u64), payload: EntryPayload::Normal(AppEntry(data)) };
        let (resp, _slot) = ApplyResponder::new();
        items.push_back(Ok((entry, Some(resp))));
    }
    items
}

async fn apply_all(sm: &mut Arc<MemStateMachine>, cmds: &[MetadataCmd], start_index: u64, p_yield: f64) {
    let _ = sm.apply(YieldingStream { items: entries_for(cmds, start_index), p_yield }).await;
}

fn reference(cmds: &[MetadataCmd]) -> Metadata {
    let m = Metadata::new();
    for c in cmds {
        let _ = octopii::StateMachineTrait::apply(&m, &bincode::serialize(c).unwrap());
    }
    m
}

pub fn run_child(seed: u64, scale: u64) -> i32 {
    tokio::sim::init(tokio::sim::Config { seed, ..Default::default() });
    let mut r = Rng(crate::mix(seed, 0x20));
    let mut res = ChildResult::default();
    let n_total = (r.range(2, 60) * scale / 100).max(1);
    let cmds = gen_cmds(&mut r, n_total);
    // apply batches, and the batches before which a snapshot build is started (it then races with that batch)
    let mut batches: Vec<(usize, usize)> = Vec::new();
    let mut at = 0usize;
    while at < cmds.len() {
        let n = (r.range(1, 8) as usize).min(cmds.len() - at);
        batches.push((at, at + n));
        at += n;
    }
    let n_snaps = r.range(1, 3) as usize;
    let mut snap_before: Vec<usize> = (0..n_snaps).map(|_| r.below(batches.len() as u64 + 1) as usize).collect();
    snap_before.sort();
    let p_yield = *[0.0f64, 0.3, 0.7].get(r.below(3) as usize).unwrap();
    res.sample = serde_json::json!({"seed": seed, "commands": cmds.iter().take(8).map(|c| format!("{:?}", c)).collect::<Vec<_>>(), "n_commands": cmds.len(), "batches": batches.len(), "snapshot_before_batch": snap_before, "p_yield": p_yield});
    let findings: std::rc::Rc<std::cell::RefCell<Vec<Finding>>> = Default::default();
    let stats: std::rc::Rc<std::cell::RefCell<BTreeMap<String, u64>>> = Default::default();
    let nontrivial = std::rc::Rc::new(std::cell::Cell::new(false));
    // what the run observed (snapshot positions, receiver states): part of the determinism digest
    let trace: std::rc::Rc<std::cell::RefCell<String>> = Default::default();
    let tr2 = trace.clone();
    let (f2, s2, nt2) = (findings.clone(), stats.clone(), nontrivial.clone());
    let n_cmds = cmds.len();
    let done = std::rc::Rc::new(std::cell::Cell::new(false));
    let done2 = done.clone();
    tokio::spawn(async move {
        struct SetOnDrop(std::rc::Rc<std::cell::Cell<bool>>);
        impl Drop for SetOnDrop {
            fn drop(&mut self) {
                self.0.set(true);
            }
        }
        let _g = SetOnDrop(done2);
        let push = |rule: &str, detail: String, facts: &[(&str, serde_json::Value)]| {
            f2.borrow_mut().push(Finding { rule: rule.into(), detail: detail.chars().take(700).collect(), facts: facts.iter().map(|(k, v)| (k.to_string(), v.clone())).collect() });
        };
        // sender: batches applied through the adapter while snapshot builds run concurrently
        let meta_a = Arc::new(Metadata::new());
        let a = MemStateMachine::new(Arc::new(Bridge(meta_a.clone())) as StateMachine);
        let mut handles = Vec::new();
        for bi in 0..=batches.len() {
            for _ in snap_before.iter().filter(|x| **x == bi) {
                let mut a2 = a.clone();
                handles.push(tokio::spawn(async move { a2.build_snapshot().await }));
            }
            if bi < batches.len() {
                let (lo, hi) = batches[bi];
                let mut a2 = a.clone();
                apply_all(&mut a2, &cmds[lo..hi], 1 + lo as u64, p_yield).await;
            }
        }
        let full = reference(&cmds);
        let full_view = view(&full);
        if view(&meta_a) != full_view {
            push("c20.adapter_apply_differs", format!("the state machine behind the adapter differs from one that applied the same {} commands directly: {} vs {}", cmds.len(), view(&meta_a), full_view), &[]);
            return;
        }
        let nonempty = full_view["topics"].as_object().map(|o| !o.is_empty()).unwrap_or(false) || full_view["nodes"].as_array().map(|o| !o.is_empty()).unwrap_or(false);
        nt2.set(nonempty);
        let mut snap_no = 0;
        for h in handles {
            let snap = match h.await {
                Ok(Ok(s)) => s,
                Ok(Err(e)) => {
                    push("c20.build_failed", format!("build_snapshot failed: {}", e), &[]);
                    continue;
                }
                Err(e) => {
                    push("c20.build_failed", format!("snapshot task failed: {}", e), &[]);
                    continue;
                }
            };
            snap_no += 1;
            let n = snap.meta.last_log_id.map(|l| l.index as usize).unwrap_or(0).min(cmds.len());
            *s2.borrow_mut().entry("snapshots".into()).or_insert(0) += 1;
            if batches.iter().any(|(lo, hi)| n > *lo && n < *hi) {
                *s2.borrow_mut().entry("snapshot_mid_batch".into()).or_insert(0) += 1;
            }
            // what a replica that applied exactly the entries 1..=n holds
            let at_snapshot = view(&reference(&cmds[..n]));
            let meta_b = Arc::new(Metadata::new());
            let mut b = MemStateMachine::new(Arc::new(Bridge(meta_b.clone())) as StateMachine);
            if let Err(e) = b.install_snapshot(&snap.meta, snap.snapshot).await {
                push("c20.install_failed", format!("install_snapshot failed: {}", e), &[]);
                continue;
            }
            let receiver = view(&meta_b);
            tr2.borrow_mut().push_str(&format!("snap {} at {} -> {};", snap_no, n, receiver));
            if receiver != at_snapshot {
                let recv_empty = !(receiver["topics"].as_object().map(|o| !o.is_empty()).unwrap_or(false) || receiver["nodes"].as_array().map(|o| !o.is_empty()).unwrap_or(false));
                push(
                    "c20.snapshot_transfer_differs",
                    format!("snapshot #{} says last applied index {}; after install_snapshot the receiver holds {} but a replica that applied entries 1..={} holds {}", snap_no, n, receiver, n, at_snapshot),
                    &[("receiver_empty", serde_json::json!(recv_empty)), ("snapshot_no", serde_json::json!(snap_no)), ("last_index", serde_json::json!(n))],
                );
                continue;
            }
            // the receiver then applies the same subsequent commands
            apply_all(&mut b, &cmds[n..], 1 + n as u64, 0.0).await;
            if view(&meta_b) != full_view {
                push("c20.diverged_after_suffix", format!("receiver of snapshot #{} (index {}) differs from the sender after both applied the remaining {} commands: {} vs {}", snap_no, n, cmds.len() - n, view(&meta_b), full_view), &[]);
            }
            let mut a3 = a.clone();
            let (la, _) = a3.applied_state().await.unwrap();
            let (lb, _) = b.applied_state().await.unwrap();
            if la != lb {
                push("c20.applied_state_differs", format!("applied log id differs: {:?} vs {:?}", la, lb), &[]);
            }
        }
        // plain snapshot -> restore into a fresh state machine (second clause), repeated on the same instance
        for round in 0..2 {
            let bytes = octopii::StateMachineTrait::snapshot(&*meta_a);
            let meta_c = Metadata::new();
            match octopii::StateMachineTrait::restore(&meta_c, &bytes) {
                Ok(()) => {
                    if view(&meta_c) != view(&meta_a) {
                        push("c20.restore_differs", format!("Metadata::restore(snapshot()) (round {}) does not reproduce the state: {} vs {}", round, view(&meta_c), view(&meta_a)), &[]);
                    }
                }
                Err(e) => push("c20.restore_failed", format!("restore of an own snapshot failed: {}", e), &[]),
            }
            // a rollover between the two rounds
            if let Some(t) = ["ta", "tb", "tc"].iter().find(|t| meta_a.get_topic_state(t).is_some()) {
                let c = MetadataCmd::RolloverTopic { name: t.to_string(), new_leader: 1 + round as u64, sealed_segment_entry_count: 3 };
                let _ = octopii::StateMachineTrait::apply(&*meta_a, &bincode::serialize(&c).unwrap());
            }
        }
    });
    let end = tokio::sim::run_until(|| done.get(), u128::MAX);
    if !done.get() {
        findings.borrow_mut().push(Finding { rule: "c20.stuck".into(), detail: format!("the run did not finish: {:?}", end), facts: BTreeMap::new() });
    }
    res.findings = findings.borrow().clone();
    res.stats = stats.borrow().clone();
    res.nontrivial = nontrivial.get();
    res.stats.insert("commands".into(), n_cmds as u64);
    let d = format!("{:?}{}", res.findings, trace.borrow());
    res.digest = d.bytes().fold(0xcbf29ce484222325u64, |h, b| (h ^ b as u64).wrapping_mul(0x00000100000001B3));
    res.key = crate::mix(seed, 20);
    println!("{}", serde_json::to_string(&res).unwrap());
    unsafe { libc::_exit(0) }
}
