//! C20: snapshot built by one adapter and installed into a fresh one (real MemStateMachine adapter
//! over the real Metadata state machine), plus Metadata::snapshot -> restore alone.
use crate::metadata::{Metadata, MetadataCmd};
use crate::openraft::storage::MemStateMachine;
use crate::openraft::types::{AppEntry, AppTypeConfig};
use crate::state_machine::{StateMachine, StateMachineTrait};
use crate::Rng;
use bytes::Bytes;
use openraft::storage::{ApplyResponder, EntryResponder, RaftSnapshotBuilder, RaftStateMachine};
use openraft::{Entry, EntryPayload, LogId};
use serde::{Deserialize, Serialize};
use std::collections::BTreeMap;
use std::sync::Arc;

/// Glue: distributed-walrus implements the `octopii` crate's trait; the adapter wants the trait
/// declared in octopii/src/state_machine.rs. Same four signatures; delegate.
struct Bridge(Arc<Metadata>);
impl StateMachineTrait for Bridge {
    fn apply(&self, command: &[u8]) -> Result<Bytes, String> {
        octopii::StateMachineTrait::apply(&*self.0, command)
    }
    fn snapshot(&self) -> Vec<u8> {
        octopii::StateMachineTrait::snapshot(&*self.0)
    }
    fn restore(&self, data: &[u8]) -> Result<(), String> {
        octopii::StateMachineTrait::restore(&*self.0, data)
    }
}

#[derive(Serialize, Deserialize, Clone, Debug, Default)]
pub struct Finding {
    pub rule: String,
    pub detail: String,
    pub facts: BTreeMap<String, serde_json::Value>,
}

#[derive(Serialize, Deserialize, Clone, Debug, Default)]
pub struct ChildResult {
    pub findings: Vec<Finding>,
    pub stats: BTreeMap<String, u64>,
    pub nontrivial: bool,
    pub key: u64,
    pub digest: u64,
    pub sample: serde_json::Value,
}

fn gen_cmds(r: &mut Rng, n: u64) -> Vec<MetadataCmd> {
    let mut v = Vec::new();
    for _ in 0..n {
        let t = ["ta", "tb", "tc"][r.below(3) as usize].to_string();
        v.push(match r.below(10) {
            0..=3 => MetadataCmd::CreateTopic { name: t, initial_leader: r.range(1, 3) },
            4..=7 => MetadataCmd::RolloverTopic { name: t, new_leader: r.range(1, 3), sealed_segment_entry_count: r.below(9) },
            _ => MetadataCmd::UpsertNode { node_id: r.range(1, 4), addr: format!("10.0.0.{}:600{}", r.range(1, 4), r.range(1, 4)) },
        });
    }
    v
}

fn norm(bytes: &[u8]) -> serde_json::Value {
    serde_json::from_slice(bytes).unwrap_or(serde_json::Value::Null)
}

async fn apply_all(sm: &mut Arc<MemStateMachine>, cmds: &[MetadataCmd], start_index: u64) {
    let mut items: Vec<Result<EntryResponder<AppTypeConfig>, std::io::Error>> = Vec::new();
    for (i, c) in cmds.iter().enumerate() {
        let data = bincode::serialize(c).unwrap();
        let entry = Entry { log_id: LogId::new(1, 1, start_index + i as u64), payload: EntryPayload::Normal(AppEntry(data)) };
        let (resp, _slot) = ApplyResponder::new();
        items.push(Ok((entry, Some(resp))));
    }
    let _ = sm.apply(futures::stream::iter(items)).await;
}

pub fn run_child(seed: u64, scale: u64) -> i32 {
    tokio::sim::init(tokio::sim::Config { seed, ..Default::default() });
    let mut r = Rng(crate::mix(seed, 0x20));
    let mut res = ChildResult::default();
    let n_prefix = (r.range(1, 40) * scale / 100).max(1);
    let n_suffix = (r.range(0, 20) * scale / 100).max(0);
    let prefix = gen_cmds(&mut r, n_prefix);
    let suffix = gen_cmds(&mut r, n_suffix);
    res.sample = serde_json::json!({"seed": seed, "prefix": prefix.iter().take(8).map(|c| format!("{:?}", c)).collect::<Vec<_>>(), "prefix_len": prefix.len(), "suffix_len": suffix.len()});
    tokio::sim::block_on(async {
        // sender
        let meta_a = Arc::new(Metadata::new());
        let mut a = MemStateMachine::new(Arc::new(Bridge(meta_a.clone())) as StateMachine);
        apply_all(&mut a, &prefix, 1).await;
        let sender_state = norm(&octopii::StateMachineTrait::snapshot(&*meta_a));
        let nonempty = sender_state.get("topics").and_then(|t| t.as_object()).map(|o| !o.is_empty()).unwrap_or(false) || sender_state.get("nodes").and_then(|t| t.as_object()).map(|o| !o.is_empty()).unwrap_or(false);
        res.nontrivial = nonempty;
        // plain snapshot -> restore into a fresh state machine
        {
            let meta_c = Metadata::new();
            let bytes = octopii::StateMachineTrait::snapshot(&*meta_a);
            match octopii::StateMachineTrait::restore(&meta_c, &bytes) {
                Ok(()) => {
                    let c_state = norm(&octopii::StateMachineTrait::snapshot(&meta_c));
                    if c_state != sender_state {
                        res.findings.push(Finding { rule: "c20.restore_differs".into(), detail: format!("Metadata::restore(snapshot()) does not reproduce the state: {} vs {}", c_state, sender_state).chars().take(600).collect(), facts: BTreeMap::new() });
                    }
                }
                Err(e) => res.findings.push(Finding { rule: "c20.restore_failed".into(), detail: format!("restore of an own snapshot failed: {}", e), facts: BTreeMap::new() }),
            }
        }
        // through the Raft state-machine adapter
        let snap = match a.build_snapshot().await {
            Ok(s) => s,
            Err(e) => {
                res.findings.push(Finding { rule: "c20.build_failed".into(), detail: format!("build_snapshot failed: {}", e), facts: BTreeMap::new() });
                return;
            }
        };
        let meta_b = Arc::new(Metadata::new());
        let mut b = MemStateMachine::new(Arc::new(Bridge(meta_b.clone())) as StateMachine);
        if let Err(e) = b.install_snapshot(&snap.meta, snap.snapshot).await {
            res.findings.push(Finding { rule: "c20.install_failed".into(), detail: format!("install_snapshot failed: {}", e), facts: BTreeMap::new() });
            return;
        }
        let receiver_state = norm(&octopii::StateMachineTrait::snapshot(&*meta_b));
        if receiver_state != sender_state {
            let recv_empty = !(receiver_state.get("topics").and_then(|t| t.as_object()).map(|o| !o.is_empty()).unwrap_or(false) || receiver_state.get("nodes").and_then(|t| t.as_object()).map(|o| !o.is_empty()).unwrap_or(false));
            let mut facts = BTreeMap::new();
            facts.insert("receiver_empty".to_string(), serde_json::json!(recv_empty));
            res.findings.push(Finding {
                rule: "c20.snapshot_transfer_differs".into(),
                detail: format!("after install_snapshot the receiver's metadata differs from the sender's at the snapshot point: receiver {} vs sender {}", receiver_state, sender_state).chars().take(700).collect(),
                facts,
            });
            return;
        }
        // same suffix on both sides
        apply_all(&mut a, &suffix, 1 + prefix.len() as u64).await;
        apply_all(&mut b, &suffix, 1 + prefix.len() as u64).await;
        let (sa, sb) = (norm(&octopii::StateMachineTrait::snapshot(&*meta_a)), norm(&octopii::StateMachineTrait::snapshot(&*meta_b)));
        if sa != sb {
            res.findings.push(Finding { rule: "c20.diverged_after_suffix".into(), detail: format!("sender and receiver differ after applying the same {} commands", suffix.len()), facts: BTreeMap::new() });
        }
        // applied state travels with the snapshot
        let (la, _) = a.applied_state().await.unwrap();
        let (lb, _) = b.applied_state().await.unwrap();
        if la != lb {
            res.findings.push(Finding { rule: "c20.applied_state_differs".into(), detail: format!("applied log id differs: {:?} vs {:?}", la, lb), facts: BTreeMap::new() });
        }
    });
    res.stats.insert("commands".into(), (prefix.len() + suffix.len()) as u64);
    let d = format!("{:?}", res.findings);
    res.digest = d.bytes().fold(0xcbf29ce484222325u64, |h, b| (h ^ b as u64).wrapping_mul(0x00000100000001B3));
    res.key = crate::mix(seed, 20);
    println!("{}", serde_json::to_string(&res).unwrap());
    unsafe { libc::_exit(0) }
}
