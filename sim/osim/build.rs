// The peer address book of octopii lives in openraft/node.rs, which as a whole cannot be compiled offline (openraft,
// quinn, tokio). Its persistence is three small self-contained items: they are cut out verbatim (from the record
// struct up to the node type) and compiled next to the real WriteAheadLog.
use std::io::Write;
fn main() {
    let src_path = "/repo/octopii/src/openraft/node.rs";
    println!("cargo:rerun-if-changed={}", src_path);
    let src = std::fs::read_to_string(src_path).expect("read node.rs");
    let lines: Vec<&str> = src.lines().collect();
    let s = lines.iter().position(|l| l.contains("struct PeerAddrRecord")).expect("PeerAddrRecord not found");
    // include the attribute lines directly above the struct
    let mut start = s;
    while start > 0 && lines[start - 1].trim_start().starts_with("#[") {
        start -= 1;
    }
    let end = lines.iter().position(|l| l.contains("pub struct OpenRaftNode")).expect("OpenRaftNode not found");
    // drop the doc comment line(s) of the node type
    let mut e = end;
    while e > start && lines[e - 1].trim_start().starts_with("///") {
        e -= 1;
    }
    let out = std::path::Path::new(&std::env::var("OUT_DIR").unwrap()).join("peer_addr.rs");
    let mut f = std::fs::File::create(out).unwrap();
    for l in &lines[start..e] {
        writeln!(f, "{}", l).unwrap();
    }
}
