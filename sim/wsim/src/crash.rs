//! Crash scenarios (C07, C08, C09): a workload is run once fault-free to number its
//! I/O events, then re-run with the process terminated at enumerated/sampled events;
//! a fresh incarnation recovers and reads everything back.
use crate::gen::*;
use crate::oracle::{index_ops, Finding, Sig};
use crate::plan::*;
use crate::props::*;
use crate::rng::{mix, Rng};
use crate::runner::*;
use std::collections::{BTreeMap, BTreeSet};

#[derive(Clone, Copy, PartialEq, Eq, Debug)]
pub enum Mode {
    C07,
    C08,
    C09,
}

pub struct CrashScenario {
    pub mode: Mode,
}

fn id_of(m: Mode) -> &'static str {
    match m {
        Mode::C07 => "C07",
        Mode::C08 => "C08",
        Mode::C09 => "C09",
    }
}

/// Base plan: 1-2 working incarnations followed by a verifying incarnation.
pub fn gen_crash_base(seed: u64, mode: Mode) -> Plan {
    let mut rng = Rng::new(mix(seed, 0xC7A5));
    let geometry = if rng.chance(0.04) { "real" } else { "small" };
    let g = geom(geometry);
    // C07 "rotation race": several threads, one topic each, entries that open a fresh block
    // almost every time, so that blocks of different topics are handed out back to back while
    // earlier ones are still being written
    let race_mode = mode == Mode::C07 && rng.chance(0.2);
    // C09 "rotation race": the same shape with one producer-and-consumer thread per topic, so that a consumer's
    // durable position can name a block that was handed out after a block whose first store is cut short later
    let race_mode = race_mode || (mode == Mode::C09 && rng.chance(0.25));
    let n_topics = if race_mode { rng.range(2, 3) as usize } else { rng.range(1, 2) as usize };
    let mut pool: Vec<&str> = TOPIC_POOL[..5].to_vec();
    let mut topics = Vec::new();
    for _ in 0..n_topics {
        let i = rng.below(pool.len() as u64) as usize;
        topics.push(pool.remove(i).to_string());
    }
    let alo = match mode {
        Mode::C09 => {
            if rng.chance(0.5) {
                0
            } else {
                rng.range(1, 8) as u32
            }
        }
        _ => 0,
    };
    let fsync = rng.pick(&["ms:1", "ms:200", "each", "none"]).to_string();
    let backend = if race_mode { rng.pick(&["fd", "mmap", "mmap"]).to_string() } else { rng.pick(&["fd", "fd", "mmap"]).to_string() };
    let n_work = if mode == Mode::C08 { 1 } else { rng.range(1, 2) as usize };
    let mut ids = IdGen(0);
    let mut incarnations = Vec::new();
    let clock_ms: u64 = 1_700_000_000_000 + rng.below(1_000_000);
    let open = |ids: &mut IdGen| Op {
        id: ids.next(),
        kind: OpKind::Open { inst: 0, key: Some("k".into()), dir: "d".into(), alo, fsync: fsync.clone(), via_env: false },
    };
    let plen = |rng: &mut Rng| -> u64 {
        // attributable payloads only (>= header), a few of them large enough to rotate blocks
        match rng.below(20) {
            0..=11 => rng.range(24, 600),
            12..=14 => rng.range(600, 9000),
            15..=16 => rng.range(g.block / 4, g.block / 2),
            17 => rng.range(g.block - 256 - 4, g.block - 256),
            18 => {
                if geometry == "real" {
                    rng.range(24, 5000)
                } else {
                    g.block + g.block / 2 + rng.below(100)
                }
            }
            _ => 128,
        }
    };
    for w in 0..n_work {
        let n_threads = if race_mode {
            n_topics
        } else if mode == Mode::C07 && rng.chance(0.35) {
            rng.range(2, 3) as usize
        } else {
            1
        };
        let n_ops = match mode {
            Mode::C08 => rng.range(0, 6),
            _ => rng.range(3, 30),
        };
        let mut setup = vec![open(&mut ids)];
        let mut threads: Vec<Vec<Op>> = (0..n_threads).map(|_| Vec::new()).collect();
        for _ in 0..n_ops {
            let mut t = rng.below(n_topics as u64) as u32;
            let th = rng.below(n_threads as u64) as usize;
            if race_mode {
                t = th as u32;
                if geometry == "small" && rng.chance(0.6) {
                    let len = rng.range(g.block / 2, g.block - 256);
                    threads[th].push(Op { id: ids.next(), kind: OpKind::Append { inst: 0, topic: t, len } });
                    continue;
                }
            }
            let is_read = mode == Mode::C09 && rng.chance(0.5);
            let op = if is_read {
                if rng.chance(0.6) {
                    Op { id: ids.next(), kind: OpKind::ReadNext { inst: 0, topic: t, checkpoint: true } }
                } else {
                    let b = *rng.pick(&[1u64, 300, 2000, 70_000, u64::MAX]);
                    Op { id: ids.next(), kind: OpKind::BatchRead { inst: 0, topic: t, max_bytes: b, checkpoint: true, start: None } }
                }
            } else if rng.chance(0.3) {
                let n = match rng.below(6) {
                    0 => 1,
                    1..=3 => rng.range(2, 6),
                    4 => rng.range(6, 40),
                    _ => rng.range(40, 300),
                };
                let lens: Vec<u64> = (0..n).map(|_| if n > 40 { rng.range(24, 60) } else { plen(&mut rng) }).collect();
                Op { id: ids.next(), kind: OpKind::BatchAppend { inst: 0, topic: t, lens } }
            } else {
                Op { id: ids.next(), kind: OpKind::Append { inst: 0, topic: t, len: plen(&mut rng) } }
            };
            threads[th].push(op);
        }
        if mode == Mode::C08 {
            // the batch under test: 1..2000 entries over 1..4 blocks
            let n = match rng.below(8) {
                0 => 1,
                1 => 2,
                2..=4 => rng.range(3, 12),
                5 => rng.range(12, 80),
                6 => rng.range(80, 400),
                _ => rng.range(400, 2000),
            };
            let spread = rng.below(3);
            let lens: Vec<u64> = (0..n)
                .map(|_| {
                    if n > 80 {
                        rng.range(24, 200)
                    } else if spread == 0 {
                        rng.range(24, 300)
                    } else {
                        plen(&mut rng)
                    }
                })
                .collect();
            threads[0].push(Op { id: ids.next(), kind: OpKind::BatchAppend { inst: 0, topic: 0, lens } });
        }
        let mut phases = vec![Phase { threads: vec![std::mem::take(&mut setup)] }];
        if n_threads == 1 {
            phases[0].threads[0].extend(threads.remove(0));
        } else {
            phases.push(Phase { threads });
        }
        if w + 1 < n_work {
            phases.push(Phase { threads: vec![vec![Op { id: ids.next(), kind: OpKind::Close { inst: 0 } }]] });
        }
        incarnations.push(Incarnation {
            sched: gen_sched(&mut rng, n_threads as u64),
            clock_start_ms: clock_ms,
            clock_delta_ms: if w == 0 { None } else { Some(rng.range(1, 5000) as i64) },
            backend: backend.clone(),
            phases,
            faults: vec![],
            buggify: vec![],
            trace_io: false,
        });
    }
    // C07: sometimes the recovered process keeps working (appends acknowledged after the crash
    // must also survive the next restart), ending without a clean close
    let mut profile = if race_mode { "crash+race" } else { "crash" };
    if mode == Mode::C09 && rng.chance(0.45) {
        // C09: the recovered process keeps producing and consuming (so that its durable position is in whatever
        // form the recovered state gives it), then stops - with or without a clean close - before the verifier
        profile = if race_mode { "crash+post+race" } else { "crash+post" };
        let mut pops = vec![open(&mut ids)];
        for _ in 0..rng.range(2, 10) {
            let t = rng.below(n_topics as u64) as u32;
            let op = match rng.below(10) {
                0..=3 => OpKind::Append { inst: 0, topic: t, len: plen(&mut rng) },
                4 => {
                    let n = rng.range(2, 6);
                    OpKind::BatchAppend { inst: 0, topic: t, lens: (0..n).map(|_| plen(&mut rng)).collect() }
                }
                5..=7 => OpKind::ReadNext { inst: 0, topic: t, checkpoint: true },
                _ => OpKind::BatchRead { inst: 0, topic: t, max_bytes: *rng.pick(&[1u64, 300, 2000, 70_000, u64::MAX]), checkpoint: true, start: None },
            };
            pops.push(Op { id: ids.next(), kind: op });
        }
        if rng.chance(0.4) {
            pops.push(Op { id: ids.next(), kind: OpKind::Close { inst: 0 } });
        }
        incarnations.push(Incarnation {
            sched: gen_sched(&mut rng, 1),
            clock_start_ms: clock_ms,
            clock_delta_ms: Some(rng.range(1, 5000) as i64),
            backend: backend.clone(),
            phases: vec![Phase { threads: vec![pops] }],
            faults: vec![],
            buggify: vec![],
            trace_io: false,
        });
    }
    if mode == Mode::C07 && rng.chance(0.4) {
        profile = if race_mode { "crash+post+race" } else { "crash+post" };
        let mut pops = vec![open(&mut ids)];
        for _ in 0..rng.range(1, 6) {
            let t = rng.below(n_topics as u64) as u32;
            if rng.chance(0.25) {
                let n = rng.range(2, 6);
                let lens: Vec<u64> = (0..n).map(|_| plen(&mut rng)).collect();
                pops.push(Op { id: ids.next(), kind: OpKind::BatchAppend { inst: 0, topic: t, lens } });
            } else {
                pops.push(Op { id: ids.next(), kind: OpKind::Append { inst: 0, topic: t, len: plen(&mut rng) } });
            }
        }
        if rng.chance(0.3) {
            pops.push(Op { id: ids.next(), kind: OpKind::Close { inst: 0 } });
        }
        incarnations.push(Incarnation {
            sched: gen_sched(&mut rng, 1),
            clock_start_ms: clock_ms,
            clock_delta_ms: Some(rng.range(1, 5000) as i64),
            backend: backend.clone(),
            phases: vec![Phase { threads: vec![pops] }],
            faults: vec![],
            buggify: vec![],
            trace_io: false,
        });
    }
    // verifying incarnation: strict consumer drains everything with read_next
    let mut vops = vec![open(&mut ids)];
    for t in 0..n_topics as u32 {
        vops.push(Op { id: ids.next(), kind: OpKind::Drain { inst: 0, topic: t, mode: "next".into(), max: 6000 } });
        vops.push(Op { id: ids.next(), kind: OpKind::Count { inst: 0, topic: t } });
    }
    incarnations.push(Incarnation {
        sched: gen_sched(&mut rng, 1),
        clock_start_ms: clock_ms,
        clock_delta_ms: Some(rng.range(1, 5000) as i64),
        backend,
        phases: vec![Phase { threads: vec![vops] }],
        faults: vec![],
        buggify: vec![],
        trace_io: false,
    });
    // a quarter of the plans restart with a wall clock that did not advance or was set back (own PRNG stream: the
    // workloads themselves are those of the earlier rounds); file names are derived from the clock
    let mut incarnations = incarnations;
    let mut rc = Rng::new(mix(seed, 0xC10C));
    if rc.chance(0.25) {
        for inc in incarnations.iter_mut().skip(1) {
            if inc.clock_delta_ms.is_some() {
                inc.clock_delta_ms = Some(match rc.below(3) {
                    0 => 0,
                    1 => -(rc.range(1, 5000) as i64),
                    _ => -(rc.range(5000, 4_000_000) as i64),
                });
            }
        }
    }
    Plan { v: 1, property: id_of(mode).into(), profile: profile.into(), seed, geometry: geometry.into(), topics, incarnations }
}

/// index of the incarnation that receives the crash fault
fn crash_inc_of(plan: &Plan) -> usize {
    let back = if plan.profile.contains("+post") { 3 } else { 2 };
    plan.incarnations.len().saturating_sub(back)
}

#[derive(Clone, Debug)]
struct IoPoint {
    /// rank of this event among the mutating I/O events of its client op (1-based)
    nth_in_op: u32,
    n: u64,
    kind: String,
    op: Option<u32>,
    len: u64,
    mmap: bool,
}

fn io_points(inc: &IncResult) -> Vec<IoPoint> {
    let mut per_op: BTreeMap<(u32, u32), u32> = BTreeMap::new();
    let mut v = Vec::new();
    for e in inc.events.iter().filter(|e| e.t == "io") {
        if let Some(io) = e.io.as_ref() {
            let nth = match e.op {
                Some(op) => {
                    let c = per_op.entry((op, e.th)).or_insert(0);
                    *c += 1;
                    *c
                }
                None => 0,
            };
            v.push(IoPoint { nth_in_op: nth, n: io.n, kind: io.kind.clone(), op: e.op, len: io.len, mmap: io.mmap });
        }
    }
    v
}

/// Fault variants for one I/O point.
fn variants_for(p: &IoPoint, rng: &mut Rng, mode: Mode, is_target_batch: bool) -> Vec<Act> {
    let mut v = vec![Act::Crash];
    if p.kind == "Store" && p.mmap && p.len > 1 {
        let mut ns: Vec<u64> = vec![1, 255, 256, 257, p.len / 2, p.len - 1];
        ns.retain(|n| *n > 0 && *n < p.len);
        ns.dedup();
        let take = if mode == Mode::C08 { ns.len() } else { 2.min(ns.len()) };
        for _ in 0..take {
            let i = rng.below(ns.len() as u64) as usize;
            v.push(Act::Torn { n: ns.remove(i) });
        }
    }
    if p.kind == "UringSubmit" {
        let n = p.len as usize;
        let mut masks: Vec<Vec<bool>> = Vec::new();
        masks.push(vec![true; n]);
        if n > 1 {
            // prefixes, suffixes, singles (bounded), random subsets
            let cap = if is_target_batch { 12 } else { 3 };
            for k in sample_idx(rng, n - 1, cap) {
                masks.push((0..n).map(|i| i <= k).collect());
            }
            for k in sample_idx(rng, n - 1, cap) {
                masks.push((0..n).map(|i| i > k).collect());
            }
            for k in sample_idx(rng, n, cap) {
                masks.push((0..n).map(|i| i == k).collect());
            }
            for _ in 0..(if is_target_batch { 16 } else { 3 }) {
                let p = *rng.pick(&[0.1, 0.5, 0.9]);
                masks.push((0..n).map(|_| rng.chance(p)).collect());
            }
        }
        for m in masks {
            v.push(Act::UringCrashSubset { keep: m });
        }
    }
    v
}

fn sample_idx(rng: &mut Rng, n: usize, cap: usize) -> Vec<usize> {
    if n <= cap {
        (0..n).collect()
    } else {
        let mut s = BTreeSet::new();
        while s.len() < cap {
            s.insert(rng.below(n as u64) as usize);
        }
        s.into_iter().collect()
    }
}

struct OpInfo {
    inv: Option<u64>,
    ret: Option<u64>,
    res: Option<Res>,
    th: u32,
}

fn op_infos(inc: &IncResult) -> BTreeMap<u32, OpInfo> {
    let mut m: BTreeMap<u32, OpInfo> = BTreeMap::new();
    for e in &inc.events {
        if let Some(id) = e.op {
            match e.t.as_str() {
                "inv" => {
                    m.entry(id).or_insert(OpInfo { inv: None, ret: None, res: None, th: e.th }).inv = Some(e.step);
                }
                "ret" => {
                    let o = m.entry(id).or_insert(OpInfo { inv: None, ret: None, res: None, th: e.th });
                    o.ret = Some(e.step);
                    o.res = e.res.clone();
                }
                _ => {}
            }
        }
    }
    m
}

/// Judge one crash run. `work` = number of working incarnations (the last of them crashed, or
/// completed when no fault fired); the incarnation after them verifies.
pub fn judge_crash(plan: &Plan, rr: &RunResult, mode: Mode) -> Vec<Finding> {
    let mut out = Vec::new();
    let ops = index_ops(plan);
    let n_inc = plan.incarnations.len();
    let verify_idx = n_inc - 1;
    if rr.incs.len() != n_inc {
        // a working incarnation ended abnormally (not crash/ok) before the verifier ran
        for (i, inc) in rr.incs.iter().enumerate() {
            if !matches!(inc.exit, Exit::Code(0) | Exit::Code(77)) {
                let rule = match inc.exit {
                    Exit::Code(78) => "any.deadlock",
                    Exit::Code(79) => "any.nonterm",
                    _ => "harness.exit",
                };
                let msg = inc.events.iter().rev().find(|e| e.t == "deadlock" || e.t == "nonterm").and_then(|e| e.msg.clone()).unwrap_or_default();
                out.push(Finding::new(rule, i, 0, format!("incarnation {} ended with {:?} {} {}", i, inc.exit, msg, inc.stderr.chars().take(200).collect::<String>())));
            }
        }
        return out;
    }
    let pfx = id_of(mode).to_lowercase();
    // ---- gather what was acknowledged / in flight, per topic ----
    #[derive(Default)]
    struct TopicHist {
        // (op, idx, sig, inv step, ret step or None when in flight, thread, incarnation)
        appends: Vec<(u32, u32, Sig, u64, Option<u64>, u32, usize)>,
        /// consuming reads per working incarnation, in program order: (entries returned, still in flight at the
        /// end of the incarnation, was read_next)
        reads: BTreeMap<usize, Vec<(Vec<Sig>, bool, bool)>>,
    }
    let mut hist: BTreeMap<u32, TopicHist> = BTreeMap::new();
    let mut single_thread = true;
    let mut alo = 0u32;
    for (i, inc) in rr.incs.iter().enumerate().take(verify_idx) {
        let infos = op_infos(inc);
        if plan.incarnations[i].phases.iter().any(|p| p.threads.len() > 1) {
            single_thread = false;
        }
        for (id, info) in infos.iter() {
            let Some(op) = ops.get(id) else { continue };
            let Some(inv) = info.inv else { continue };
            match &op.kind {
                OpKind::Open { alo: a, .. } => alo = *a,
                OpKind::Append { topic, len, .. } => {
                    let ok = info.res.as_ref().map(|r| r.k == "ok");
                    if ok == Some(false) {
                        continue;
                    }
                    let h = hist.entry(*topic).or_default();
                    h.appends.push((*id, 0, expected_sig(plan.seed, *topic, *id, 0, *len), inv, info.ret, info.th, i));
                }
                OpKind::BatchAppend { topic, lens, .. } => {
                    let ok = info.res.as_ref().map(|r| r.k == "ok");
                    if ok == Some(false) {
                        continue;
                    }
                    let h = hist.entry(*topic).or_default();
                    for (k, l) in lens.iter().enumerate() {
                        h.appends.push((*id, k as u32, expected_sig(plan.seed, *topic, *id, k as u32, *l), inv, info.ret, info.th, i));
                    }
                }
                OpKind::ReadNext { topic, checkpoint: true, .. } | OpKind::BatchRead { topic, checkpoint: true, start: None, .. } => {
                    let h = hist.entry(*topic).or_default();
                    let is_next = matches!(op.kind, OpKind::ReadNext { .. });
                    match &info.res {
                        Some(r) if r.k == "ok" => h.reads.entry(i).or_default().push((r.entries.clone(), false, is_next)),
                        Some(_) => {}
                        None => h.reads.entry(i).or_default().push((Vec::new(), true, is_next)),
                    }
                }
                _ => {}
            }
        }
    }
    // ---- the verifying incarnation ----
    let vinc = &rr.incs[verify_idx];
    let vinfos = op_infos(vinc);
    if !matches!(vinc.exit, Exit::Code(0)) {
        out.push(Finding::new(
            &format!("{}.recovery_died", pfx),
            verify_idx,
            0,
            format!("the recovering process ended with {:?}: {}", vinc.exit, vinc.events.iter().rev().find(|e| e.t == "panic" || e.t == "deadlock" || e.t == "nonterm").and_then(|e| e.msg.clone()).unwrap_or_default()),
        ));
        return out;
    }
    for (id, info) in vinfos.iter() {
        let Some(op) = ops.get(id) else { continue };
        let Some(res) = &info.res else { continue };
        match &op.kind {
            OpKind::Open { .. } => {
                if res.k != "ok" {
                    out.push(
                        Finding::new(&format!("{}.open_failed", pfx), verify_idx, *id, format!("reopen after the crash returned {} {:?} {:?}", res.k, res.err_kind, res.msg))
                            .fact("kind", serde_json::json!(res.k)),
                    );
                    return out;
                }
            }
            OpKind::Drain { topic, .. } => {
                let empty = TopicHist::default();
                let h = hist.get(topic).unwrap_or(&empty);
                let rec = &res.entries;
                if res.k != "ok" {
                    out.push(Finding::new(&format!("{}.read_failed", pfx), verify_idx, *id, format!("reading back after recovery failed: {:?} {:?}", res.err_kind, res.msg)));
                    continue;
                }
                // all entries of the topic in acknowledgement order (program order for one thread)
                let mut all = h.appends.clone();
                all.sort_by_key(|a| (a.6, a.3, a.0, a.1));
                let by_origin: BTreeMap<u64, usize> = all.iter().enumerate().map(|(i, a)| (a.2 .2, i)).collect();
                let acked: Vec<usize> = all.iter().enumerate().filter(|(_, a)| a.4.is_some()).map(|(i, _)| i).collect();
                match mode {
                    Mode::C07 | Mode::C08 => {
                        // map recovered entries to their origin
                        let mut seen: BTreeSet<usize> = BTreeSet::new();
                        let mut order: Vec<usize> = Vec::new();
                        let mut bad = false;
                        for (k, r) in rec.iter().enumerate() {
                            let idx = by_origin.get(&r.2).copied().filter(|i| all[*i].2 .0 == r.0 && all[*i].2 .1 == r.1);
                            match idx {
                                None => {
                                    out.push(
                                        Finding::new(&format!("{}.foreign", pfx), verify_idx, *id, format!("recovered entry #{} (len={} seq={:x}) is not an acknowledged or in-flight append of this topic (or its bytes differ)", k, r.0, r.2))
                                            .fact("index", serde_json::json!(k)),
                                    );
                                    bad = true;
                                    break;
                                }
                                Some(i) => {
                                    if !seen.insert(i) {
                                        out.push(Finding::new(&format!("{}.duplicate", pfx), verify_idx, *id, format!("entry seq={:x} recovered twice", r.2)));
                                        bad = true;
                                        break;
                                    }
                                    order.push(i);
                                }
                            }
                        }
                        if bad {
                            continue;
                        }
                        if mode == Mode::C07 {
                            let missing: Vec<usize> = acked.iter().copied().filter(|i| !seen.contains(i)).collect();
                            if !missing.is_empty() {
                                let a = &all[missing[0]];
                                out.push(
                                    Finding::new(
                                        &format!("{}.lost_acked", pfx),
                                        verify_idx,
                                        *id,
                                        format!("{} acknowledged entries are missing after recovery (first: op {} idx {} len {}); recovered {} of {} acknowledged", missing.len(), a.0, a.1, a.2 .0, rec.len(), acked.len()),
                                    )
                                    .fact("missing", serde_json::json!(missing.len()))
                                    .fact("first_missing_is_last_acked_op", serde_json::json!(acked.last().map(|l| all[*l].0 == a.0).unwrap_or(false))),
                                );
                                continue;
                            }
                            // order: real-time and program order
                            let mut reordered = None;
                            for w in order.windows(2) {
                                let (a, b) = (&all[w[0]], &all[w[1]]);
                                let b_before_a = match (b.4, a.3) {
                                    (Some(bret), ainv) => b.6 < a.6 || (b.6 == a.6 && bret < ainv),
                                    _ => false,
                                };
                                let same_op_backwards = a.0 == b.0 && b.1 < a.1;
                                let same_thread_backwards = a.6 == b.6 && a.5 == b.5 && (b.3, b.0) < (a.3, a.0);
                                if b_before_a || same_op_backwards || same_thread_backwards {
                                    reordered = Some((a.0, a.1, b.0, b.1));
                                    break;
                                }
                            }
                            if let Some((a0, a1, b0, b1)) = reordered {
                                out.push(Finding::new(&format!("{}.reordered", pfx), verify_idx, *id, format!("entry op {} idx {} is recovered before op {} idx {} although it was appended after it", a0, a1, b0, b1)));
                                continue;
                            }
                            if single_thread {
                                // literal: acked entries first, then a subsequence of the in-flight op
                                let first_inflight = order.iter().position(|i| all[*i].4.is_none());
                                if let Some(p) = first_inflight {
                                    let crashed_in = all[order[p]].6;
                                    if order[p..].iter().any(|i| all[*i].4.is_some() && all[*i].6 <= crashed_in) {
                                        out.push(Finding::new(&format!("{}.inflight_not_last", pfx), verify_idx, *id, "an entry of the operation in flight at the crash precedes an acknowledged entry".into()));
                                    }
                                }
                            }
                        } else {
                            // C08: the batch in flight at the crash is recovered entirely or not at all
                            let inflight_ops: BTreeSet<u32> = all.iter().filter(|a| a.4.is_none()).map(|a| a.0).collect();
                            for bop in inflight_ops {
                                let total = all.iter().filter(|a| a.0 == bop).count();
                                if !matches!(ops.get(&bop).map(|o| &o.kind), Some(OpKind::BatchAppend { .. })) {
                                    continue;
                                }
                                let present: Vec<u32> = order.iter().filter(|i| all[**i].0 == bop).map(|i| all[*i].1).collect();
                                if !present.is_empty() && present.len() != total {
                                    let is_prefix = present.iter().enumerate().all(|(k, idx)| *idx as usize == k);
                                    out.push(
                                        Finding::new(
                                            &format!("{}.partial_batch", pfx),
                                            verify_idx,
                                            *id,
                                            format!("batch op {} was in flight at the crash; {} of its {} entries were recovered (indices {:?}{})", bop, present.len(), total, &present[..present.len().min(8)], if present.len() > 8 { ".." } else { "" }),
                                        )
                                        .fact("recovered", serde_json::json!(present.len()))
                                        .fact("total", serde_json::json!(total))
                                        .fact("is_prefix", serde_json::json!(is_prefix)),
                                    );
                                }
                            }
                        }
                    }
                    Mode::C09 => {
                        // The acknowledged log of the topic, and for every restart boundary the position at which
                        // the consumer resumed: segment = the consuming reads of one working incarnation, the last
                        // segment is the verifier's drain. Positions count acknowledged entries only (entries of
                        // appends that were in flight at a crash may or may not be there and are skipped).
                        let acked_idx = |s: &Sig| -> Option<Option<usize>> {
                            // None: not an entry of this topic; Some(None): entry of an un-acknowledged append
                            let i = by_origin.get(&s.2).copied().filter(|i| all[*i].2 .0 == s.0 && all[*i].2 .1 == s.1)?;
                            if all[i].4.is_some() {
                                Some(Some(all.iter().take(i).filter(|a| a.4.is_some()).count()))
                            } else {
                                Some(None)
                            }
                        };
                        let n_acked = all.iter().filter(|a| a.4.is_some()).count();
                        let acked_before = |inc: usize| all.iter().filter(|a| a.4.is_some() && a.6 < inc).count();
                        struct Seg {
                            inc: usize,
                            delivered: Vec<Sig>,
                            inflight: bool,
                            only_next: bool,
                            is_verify: bool,
                        }
                        let mut segs: Vec<Seg> = Vec::new();
                        for (inc, reads) in h.reads.iter() {
                            segs.push(Seg {
                                inc: *inc,
                                delivered: reads.iter().flat_map(|r| r.0.iter().copied()).collect(),
                                inflight: reads.iter().any(|r| r.1),
                                only_next: reads.iter().all(|r| r.2),
                                is_verify: false,
                            });
                        }
                        segs.push(Seg { inc: verify_idx, delivered: rec.clone(), inflight: false, only_next: true, is_verify: true });
                        // position after the last delivered entry, as far as it is known
                        let mut pos: usize = 0;
                        let mut prev_inflight = false;
                        let mut prev_only_next = true;
                        let mut first_seg = true;
                        'segs: for seg in segs.iter() {
                            let mut idxs: Vec<usize> = Vec::new();
                            for (k, e) in seg.delivered.iter().enumerate() {
                                match acked_idx(e) {
                                    None => {
                                        if seg.is_verify && k == 0 {
                                            out.push(Finding::new(&format!("{}.foreign", pfx), verify_idx, *id, format!("first entry after restart (len={} seq={:x}) is not an entry of this topic", e.0, e.2)));
                                        }
                                        // not attributable: a C01 matter, this topic is not judged further
                                        break 'segs;
                                    }
                                    Some(None) => {}
                                    Some(Some(i)) => idxs.push(i),
                                }
                            }
                            let restarted = !first_seg || seg.inc > 0;
                            first_seg = false;
                            if idxs.is_empty() && !seg.is_verify {
                                // nothing delivered in this incarnation: the boundary is judged at the next segment
                                prev_inflight |= seg.inflight;
                                prev_only_next &= seg.only_next;
                                continue;
                            }
                            let c = pos;
                            let resume = match idxs.first() {
                                Some(i) => *i,
                                None => n_acked.max(c),
                            };
                            if restarted {
                                let unread_exists = c < if seg.is_verify { n_acked } else { acked_before(seg.inc) };
                                let where_ = if seg.is_verify { "the verifying incarnation".to_string() } else { format!("incarnation {}", seg.inc) };
                                if alo == 0 {
                                    if resume < c {
                                        out.push(
                                            Finding::new(
                                                &format!("{}.strict_redelivery", pfx),
                                                seg.inc,
                                                *id,
                                                format!("StrictlyAtOnce: {} entries had been returned by consuming reads before the restart, the consumer resumed at entry {} in {} ({} redelivered)", c, resume, where_, c - resume),
                                            )
                                            .fact("redelivered", serde_json::json!(c - resume))
                                            .fact("inflight_read", serde_json::json!(prev_inflight)),
                                        );
                                    } else if resume > c && !prev_inflight && unread_exists {
                                        out.push(
                                            Finding::new(
                                                &format!("{}.strict_skip", pfx),
                                                seg.inc,
                                                *id,
                                                format!("StrictlyAtOnce: consumer resumed at entry {} in {} but only {} had been returned before the restart ({} skipped)", resume, where_, c, resume - c),
                                            )
                                            .fact("skipped", serde_json::json!(resume - c)),
                                        );
                                    }
                                } else if resume > c && !prev_inflight && unread_exists {
                                    out.push(
                                        Finding::new(&format!("{}.alo_skip", pfx), seg.inc, *id, format!("AtLeastOnce: consumer resumed at entry {} in {} but only {} had been returned ({} skipped)", resume, where_, c, resume - c))
                                            .fact("skipped", serde_json::json!(resume - c)),
                                    );
                                } else if resume < c && prev_only_next && (c - resume) as u32 > alo {
                                    out.push(
                                        Finding::new(
                                            &format!("{}.alo_redelivery_bound", pfx),
                                            seg.inc,
                                            *id,
                                            format!("AtLeastOnce{{persist_every:{}}}: consumption before the restart was by read_next only and had reached entry {}, the consumer resumed at entry {} in {} ({} redelivered)", alo, c, resume, where_, c - resume),
                                        )
                                        .fact("redelivered", serde_json::json!(c - resume))
                                        .fact("persist_every", serde_json::json!(alo)),
                                    );
                                }
                            } else if resume != c {
                                // the very first consumption does not start at the first entry: a C01 matter
                                break 'segs;
                            }
                            if seg.is_verify {
                                // nothing after the resume point may be missing (no skip later on)
                                let expect_rest = n_acked.saturating_sub(resume.min(n_acked));
                                if idxs.len() < expect_rest {
                                    out.push(
                                        Finding::new(&format!("{}.lost_after_resume", pfx), verify_idx, *id, format!("after resuming at {} only {} of the {} remaining acknowledged entries were delivered", resume, idxs.len(), expect_rest))
                                            .fact("missing", serde_json::json!(expect_rest - idxs.len())),
                                    );
                                }
                            } else {
                                // deliveries within one incarnation must be contiguous, else the position is unknown (C01 matter)
                                if idxs.iter().enumerate().any(|(k, i)| *i != resume + k) {
                                    break 'segs;
                                }
                                pos = resume + idxs.len();
                                prev_inflight = seg.inflight;
                                prev_only_next = seg.only_next;
                            }
                        }
                    }
                }
            }
            _ => {}
        }
    }
    out
}

impl CrashScenario {
    fn owns(&self, rule: &str) -> bool {
        rule.starts_with(&id_of(self.mode).to_lowercase()) || rule.starts_with("any.")
    }
}

impl Scenario for CrashScenario {
    fn id(&self) -> &'static str {
        id_of(self.mode)
    }
    fn level(&self) -> &'static str {
        "fault_enumeration"
    }
    fn rule_text(&self) -> String {
        match self.mode {
            Mode::C07 => "producer workloads (1-3 threads, appends and batches, all fsync schedules, both backends, 1-2 working incarnations) run once fault-free to number the mutating I/O events, then re-run with the process terminated before event k (all k when <=60 events, else 60 sampled), plus torn mmap stores and arbitrary completed subsets of io_uring batches; a fresh process recovers and drains every topic; oracle: reopen Ok, every acknowledged entry present, byte-identical, in an order consistent with program and real-time order, extras only from operations in flight; distinct = (plan, crash point, fault variant); non-trivial = the fault fired".into(),
            Mode::C08 => "one batch (1..2000 entries over 1..4 blocks) in flight: crash before every I/O event of the batch, after every sampled subset of its io_uring writes (none, all, prefixes, suffixes, singles, random), and between/inside the sequential stores of the mmap path; oracle: the recovered topic contains all or none of the batch's entries".into(),
            Mode::C09 => "appends, read_next and batch reads (StrictlyAtOnce and AtLeastOnce{1..8}), 1-2 working incarnations so that block ids are reassigned by an earlier recovery, optionally a post-crash working incarnation with producers and consumers, and rotation-race workloads (one producer-and-consumer thread per topic, slow-thread + torn-store faults); crash before every sampled I/O event (index tmp write, fsync, rename are separate events), in 30% of the post-crash variants followed by a second crash at a seeded I/O event of the recovering incarnation (inside its recovery or its operations); oracle, applied at every restart boundary: Strict resumes exactly after the last entry whose consuming read returned (the read in flight may go either way), AtLeastOnce never resumes later and read_next-only consumption redelivers at most persist_every".into(),
        }
    }
    fn plan_for(&self, seed_r: u64) -> Option<Plan> {
        Some(gen_crash_base(seed_r, self.mode))
    }
    fn run_one(&self, seed_r: u64, env: &Env) -> Outcome {
        let mut out = Outcome::default();
        let base = gen_crash_base(seed_r, self.mode);
        let mut rng = Rng::new(mix(seed_r, 0xFA17));
        // phase 1: fault-free pass
        let rr0 = run_plan(&env.bins, &base, &RunOpts::default());
        out.executions += rr0.incs.len() as u64;
        out.digest = history_hash(&rr0);
        absorb_summary(&mut out, &rr0);
        out.stat("sim_clock_ms", sim_clock_ms(&rr0, &base));
        out.stat(&format!("geometry.{}", base.geometry), 1);
        for f in judge_crash(&base, &rr0, self.mode) {
            if self.owns(&f.rule) {
                out.findings.push((base.clone(), f));
            } else if f.rule.starts_with("harness.") {
                out.harness_errors.push(f.detail.clone());
            }
        }
        let crash_inc = crash_inc_of(&base);
        if rr0.incs.len() != base.incarnations.len() {
            return out;
        }
        let points = io_points(&rr0.incs[crash_inc]);
        // the batch under test (C08): the last op of the crashing incarnation
        let target_op: Option<u32> = if self.mode == Mode::C08 {
            base.incarnations[crash_inc].phases.iter().flat_map(|p| p.threads.iter().flat_map(|t| t.iter())).filter(|o| matches!(o.kind, OpKind::BatchAppend { .. })).map(|o| o.id).last()
        } else {
            None
        };
        let read_ops: BTreeSet<u32> = index_ops(&base).iter().filter(|(_, o)| matches!(o.kind, OpKind::ReadNext { .. } | OpKind::BatchRead { .. })).map(|(id, _)| *id).collect();
        let mut cands: Vec<&IoPoint> = points
            .iter()
            .filter(|p| match self.mode {
                Mode::C08 => p.op == target_op,
                // rotation race: the interesting instants are the data writes themselves
                Mode::C07 | Mode::C09 if base.profile.contains("+race") && base.incarnations[crash_inc].backend == "mmap" => p.kind == "Store",
                _ => true,
            })
            .collect();
        let cap = if env.thorough { 200 } else { 40 };
        let max_variants = if env.thorough { 400 } else { 60 };
        let mut n_variants = 0;
        if cands.len() > cap {
            // bias: keep structural events (creation, rename, submits) and events inside reads for C09
            let mut keep: Vec<&IoPoint> = Vec::new();
            let mut rest: Vec<&IoPoint> = Vec::new();
            for p in cands.into_iter() {
                let structural = matches!(p.kind.as_str(), "Create" | "SetLen" | "FileFsync" | "DirFsync" | "Rename" | "TmpWrite" | "TmpFsync" | "UringSubmit" | "Remove");
                let in_read = self.mode == Mode::C09 && p.op.map(|o| read_ops.contains(&o)).unwrap_or(false);
                if (structural || in_read) && keep.len() < cap * 2 / 3 {
                    keep.push(p);
                } else {
                    rest.push(p);
                }
            }
            while keep.len() < cap && !rest.is_empty() {
                let i = rng.below(rest.len() as u64) as usize;
                keep.push(rest.remove(i));
            }
            cands = keep;
        }
        out.stat("crash_points_total", points.len() as u64);
        out.stat("crash_points_tried", cands.len() as u64);
        let mut sample_done = false;
        // visit the candidate points in a seeded order so that a truncated enumeration is not biased to the start
        let mut cands = cands;
        for i in (1..cands.len()).rev() {
            let j = rng.below(i as u64 + 1) as usize;
            cands.swap(i, j);
        }
        'outer: for p in cands {
            let is_target = target_op.is_some() && p.op == target_op;
            for act in variants_for(p, &mut rng, self.mode, is_target) {
                if std::time::Instant::now() >= env.deadline {
                    out.deadline_cut = true;
                }
                if n_variants >= max_variants || out.deadline_cut {
                    out.stat("enumeration_truncated", 1);
                    break 'outer;
                }
                n_variants += 1;
                let mut plan = base.clone();
                // op-relative selectors survive minimisation; background-thread events are absolute
                let sel = match p.op {
                    Some(op) => Sel::InOp { op, nth: p.nth_in_op },
                    None => Sel::AtIo(p.n),
                };
                // several client threads: half of the variants first hold the crashing thread back
                // (a slow thread), so that the others get ahead of the write that is then cut short
                let multi = base.incarnations[crash_inc].phases.iter().any(|p| p.threads.len() > 1);
                let mut faults = Vec::new();
                if multi && p.op.is_some() && rng.chance(0.5) {
                    faults.push(Fault { sel: sel.clone(), act: Act::Stall { steps: rng.range(50, 3000) } });
                }
                faults.push(Fault { sel, act: act.clone() });
                plan.incarnations[crash_inc].faults = faults;
                let rr = run_plan(&env.bins, &plan, &RunOpts::default());
                out.executions += rr.incs.len() as u64;
                out.digest = crate::rng::fnv_step(out.digest, history_hash(&rr));
                absorb_summary(&mut out, &rr);
                out.stat("sim_clock_ms", sim_clock_ms(&rr, &plan));
                let fired = rr.incs.get(crash_inc).map(|i| matches!(i.exit, Exit::Code(77))).unwrap_or(false);
                if fired {
                    out.keys.push(crate::rng::fnv64(format!("{}:{}:{:?}", seed_r, p.n, act).as_bytes()));
                    out.stat(&format!("reach.crash_at_{}", p.kind), 1);
                    if !sample_done {
                        let mut s = render_sample(&plan);
                        s["crash"] = serde_json::json!({"io": p.n, "kind": p.kind, "in_op": p.op});
                        out.sample = Some(s);
                        sample_done = true;
                    }
                } else {
                    out.stat("fault_not_reached", 1);
                }
                // second crash: the incarnation that recovers from the first crash (and goes on working) is itself
                // ended at a seeded I/O event - inside its recovery or inside one of its operations
                let mut second: Option<(Plan, RunResult, String)> = None;
                if fired && base.profile.contains("+post") && rr.incs.len() == plan.incarnations.len() && rng.chance(0.3) && n_variants < max_variants {
                    let pts = io_points(&rr.incs[crash_inc + 1]);
                    if !pts.is_empty() {
                        let q = &pts[rng.below(pts.len() as u64) as usize];
                        let mut plan2 = plan.clone();
                        let sel2 = match q.op {
                            Some(op) => Sel::InOp { op, nth: q.nth_in_op },
                            None => Sel::AtIo(q.n),
                        };
                        let act2 = if q.kind == "Store" && q.mmap && q.len >= 2 && rng.chance(0.4) { Act::Torn { n: rng.range(1, q.len.max(2) - 1) } } else { Act::Crash };
                        plan2.incarnations[crash_inc + 1].faults = vec![Fault { sel: sel2, act: act2 }];
                        n_variants += 1;
                        let rr2 = run_plan(&env.bins, &plan2, &RunOpts::default());
                        out.executions += rr2.incs.len() as u64;
                        out.digest = crate::rng::fnv_step(out.digest, history_hash(&rr2));
                        absorb_summary(&mut out, &rr2);
                        if rr2.incs.get(crash_inc + 1).map(|i| matches!(i.exit, Exit::Code(77))).unwrap_or(false) {
                            out.stat("reach.second_crash_in_recovering_incarnation", 1);
                            out.stat(&format!("reach.second_crash_at_{}", q.kind), 1);
                            if q.op.and_then(|o| index_ops(&plan2).get(&o).map(|x| matches!(x.kind, OpKind::Open { .. }))).unwrap_or(false) {
                                out.stat("reach.second_crash_inside_recovery", 1);
                            }
                            out.keys.push(crate::rng::fnv64(format!("{}:{}:{:?}:second:{}", seed_r, p.n, act, q.n).as_bytes()));
                        }
                        second = Some((plan2, rr2, q.kind.clone()));
                    }
                }
                if let Some((plan2, rr2, kind2)) = second.as_ref() {
                    for f in judge_crash(plan2, rr2, self.mode) {
                        if self.owns(&f.rule) {
                            let f = f.fact("crash_kind", serde_json::json!(p.kind)).fact("second_crash_kind", serde_json::json!(kind2)).fact("act", serde_json::json!("double_crash")).fact("backend", serde_json::json!(plan2.incarnations[crash_inc].backend.clone()));
                            out.findings.push((plan2.clone(), f));
                        } else if f.rule.starts_with("harness.") {
                            out.harness_errors.push(f.detail.clone());
                        }
                    }
                }
                for f in judge_crash(&plan, &rr, self.mode) {
                    if self.owns(&f.rule) {
                        let f = f.fact("crash_kind", serde_json::json!(p.kind)).fact("act", serde_json::json!(match &act {
                            Act::Crash => "crash",
                            Act::Torn { .. } => "torn",
                            Act::UringCrashSubset { .. } => "uring_subset",
                            _ => "other",
                        })).fact("backend", serde_json::json!(plan.incarnations[crash_inc].backend.clone()));
                        out.findings.push((plan.clone(), f));
                    } else if f.rule.starts_with("harness.") {
                        out.harness_errors.push(f.detail.clone());
                    }
                }
            }
        }
        if out.sample.is_none() {
            out.sample = Some(render_sample(&base));
        }
        out
    }
    fn judge_plan(&self, plan: &Plan, env: &Env) -> (Vec<Finding>, u64) {
        let rr = run_plan(&env.bins, plan, &RunOpts::default());
        let crash_inc = crash_inc_of(plan);
        let fs = judge_crash(plan, &rr, self.mode)
            .into_iter()
            .filter(|f| self.owns(&f.rule))
            .map(|f| {
                // same facts as in the search, so known-finding fingerprints match on replay
                let act = plan.incarnations.get(crash_inc).and_then(|i| i.faults.last()).map(|f| match &f.act {
                    Act::Crash => "crash",
                    Act::Torn { .. } => "torn",
                    Act::UringCrashSubset { .. } => "uring_subset",
                    _ => "other",
                });
                let mut f = f;
                if let Some(a) = act {
                    f = f.fact("act", serde_json::json!(a));
                }
                f.fact("backend", serde_json::json!(plan.incarnations.get(crash_inc).map(|i| i.backend.clone()).unwrap_or_default()))
            })
            .collect();
        (fs, history_hash(&rr))
    }
}
