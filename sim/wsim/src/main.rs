//! wsim: deterministic simulation of the walrus engine.
//!   wsim child <plan.json> <incarnation>         (internal)
//!   wsim run <ID> quick|thorough                 search; writes evidence, prints VIOLATION lines
//!   wsim replay <file>                           re-execute a replay file
//!   wsim plan <ID> <seed>                        print the plan a seed generates
mod child;
mod conc;
mod corrupt;
mod crash;
mod gen;
mod oracle;
mod plan;
mod powerloss;
mod props;
mod rng;
mod runner;
mod sim;

use oracle::Finding;
use plan::*;
use props::*;
use runner::*;
use serde::{Deserialize, Serialize};
use std::collections::{BTreeMap, BTreeSet};
use std::path::PathBuf;
use std::sync::atomic::{AtomicBool, AtomicU64, Ordering};
use std::sync::Mutex;
use std::time::{Duration, Instant};

// ---------------------------------------------------------------------------
// Hash-order determinism: std's RandomState obtains its keys through the libc
// `getrandom` symbol (weak, "to allow interposition"). Defining it here makes
// HashMap iteration order a function of the run seed.
// ---------------------------------------------------------------------------
static GR_SEED: AtomicU64 = AtomicU64::new(0x1234_5678_9ABC_DEF0);
static GR_CTR: AtomicU64 = AtomicU64::new(0);

pub fn set_getrandom_seed(s: u64) {
    GR_SEED.store(s, Ordering::SeqCst);
    GR_CTR.store(0, Ordering::SeqCst);
}

#[no_mangle]
pub unsafe extern "C" fn getrandom(buf: *mut u8, len: usize, _flags: u32) -> isize {
    let seed = GR_SEED.load(Ordering::SeqCst);
    let mut i = 0;
    while i < len {
        let c = GR_CTR.fetch_add(1, Ordering::SeqCst);
        let w = rng::mix(seed, c).to_le_bytes();
        let n = (len - i).min(8);
        std::ptr::copy_nonoverlapping(w.as_ptr(), buf.add(i), n);
        i += n;
    }
    len as isize
}

#[derive(Serialize, Deserialize, Clone, Debug)]
struct ReplayFile {
    property: String,
    rule: String,
    detail: String,
    facts: BTreeMap<String, serde_json::Value>,
    history_hash: String,
    minimised: bool,
    plan: Plan,
}

#[derive(Serialize, Deserialize, Clone, Debug)]
struct KnownEntry {
    #[serde(default)]
    status: String, // "known" | "fixed"
    property: String,
    rule: String,
    #[serde(default)]
    r#match: BTreeMap<String, serde_json::Value>,
    summary: String,
    #[serde(default)]
    commit: Option<String>,
}

fn verif_root() -> PathBuf {
    PathBuf::from(std::env::var("VERIF_ROOT").unwrap_or_else(|_| "/verif".into()))
}

fn load_known() -> Vec<KnownEntry> {
    let p = verif_root().join("known_findings.json");
    match std::fs::read(&p) {
        Ok(b) => serde_json::from_slice::<Vec<KnownEntry>>(&b).unwrap_or_else(|e| {
            eprintln!("wsim: cannot parse {}: {}", p.display(), e);
            std::process::exit(2)
        }),
        Err(_) => vec![],
    }
}

fn fact_matches(want: &serde_json::Value, got: Option<&serde_json::Value>) -> bool {
    if let Some(obj) = want.as_object() {
        if let Some(list) = obj.get("any_of").and_then(|v| v.as_array()) {
            return got.map(|g| list.contains(g)).unwrap_or(false);
        }
        if let Some(n) = obj.get("ge").and_then(|v| v.as_i64()) {
            return got.and_then(|g| g.as_i64()).map(|g| g >= n).unwrap_or(false);
        }
        if let Some(n) = obj.get("le").and_then(|v| v.as_i64()) {
            return got.and_then(|g| g.as_i64()).map(|g| g <= n).unwrap_or(false);
        }
        if let Some(s) = obj.get("contains").and_then(|v| v.as_str()) {
            return got.and_then(|g| g.as_str()).map(|g| g.contains(s)).unwrap_or(false);
        }
        if let Some(v) = obj.get("all_eq") {
            return got.and_then(|g| g.as_array()).map(|a| !a.is_empty() && a.iter().all(|x| x == v)).unwrap_or(false);
        }
    }
    got == Some(want)
}

fn known_match<'a>(known: &'a [KnownEntry], prop: &str, f: &Finding) -> Option<&'a KnownEntry> {
    known.iter().find(|k| {
        k.status != "fixed" && k.property == prop && k.rule == f.rule && k.r#match.iter().all(|(fk, fv)| fact_matches(fv, f.facts.get(fk)))
    })
}

fn bins() -> Bins {
    let root = verif_root();
    let small = std::env::var("WSIM_BIN_SMALL").map(PathBuf::from).unwrap_or_else(|_| root.join("target/small/release/wsim"));
    let real = std::env::var("WSIM_BIN_REAL").map(PathBuf::from).unwrap_or_else(|_| root.join("target/real/release/wsim"));
    let asan = std::env::var("WSIM_BIN_ASAN").ok().map(PathBuf::from);
    Bins { small, real, asan }
}

// ---------------------------------------------------------------------------
// Minimisation: delta debugging on the op lists while the same rule still fires.
// ---------------------------------------------------------------------------
fn flatten_len(plan: &Plan) -> usize {
    plan.incarnations.iter().map(|i| i.phases.iter().map(|p| p.threads.iter().map(|t| t.len()).sum::<usize>()).sum::<usize>()).sum()
}

/// Operations the oracles rely on structurally; the minimiser never removes them.
fn structural(k: &OpKind) -> bool {
    matches!(k, OpKind::Open { .. } | OpKind::Close { .. } | OpKind::RemoveFile { .. } | OpKind::Drain { .. })
}

fn remove_ops(plan: &Plan, drop: &BTreeSet<u32>) -> Plan {
    let mut p = plan.clone();
    for inc in p.incarnations.iter_mut() {
        for ph in inc.phases.iter_mut() {
            for th in ph.threads.iter_mut() {
                th.retain(|o| !drop.contains(&o.id) || structural(&o.kind));
            }
        }
    }
    p
}

fn minimise(sc: &dyn Scenario, env: &Env, plan: &Plan, rule: &str, budget: usize, deadline: Instant) -> (Plan, usize) {
    let mut best = plan.clone();
    let mut tries = 0usize;
    let still_fails = |p: &Plan, tries: &mut usize| -> bool {
        *tries += 1;
        let (fs, _) = sc.judge_plan(p, env);
        fs.iter().any(|f| f.rule == rule)
    };
    // drop trailing incarnations first
    while best.incarnations.len() > 1 && tries < budget && Instant::now() < deadline {
        let mut c = best.clone();
        c.incarnations.pop();
        if still_fails(&c, &mut tries) {
            best = c;
        } else {
            break;
        }
    }
    let mut chunk = (flatten_len(&best) / 2).max(1);
    while chunk >= 1 && tries < budget && Instant::now() < deadline {
        let ids: Vec<u32> = best
            .incarnations
            .iter()
            .flat_map(|i| i.phases.iter().flat_map(|p| p.threads.iter().flat_map(|t| t.iter().filter(|o| !structural(&o.kind)).map(|o| o.id))))
            .collect();
        let mut progress = false;
        let mut start = 0;
        while start < ids.len() && tries < budget && Instant::now() < deadline {
            let drop: BTreeSet<u32> = ids[start..(start + chunk).min(ids.len())].iter().copied().collect();
            let c = remove_ops(&best, &drop);
            if flatten_len(&c) < flatten_len(&best) && still_fails(&c, &mut tries) {
                best = c;
                progress = true;
            }
            start += chunk;
        }
        if !progress {
            if chunk == 1 {
                break;
            }
            chunk /= 2;
        }
    }
    (best, tries)
}

// ---------------------------------------------------------------------------
// Driver
// ---------------------------------------------------------------------------
struct Agg {
    executions: u64,
    runs: u64,
    keys: BTreeSet<u64>,
    findings: Vec<(u64, Plan, Finding)>,
    samples: Vec<serde_json::Value>,
    stats: BTreeMap<String, u64>,
    harness_errors: Vec<String>,
    nondeterminism: Vec<u64>,
    rechecked: u64,
    slowest: (u64, u64, u64),
}

/// Runs per tier (quick; thorough = 3x): what ~60 s of wall clock yields on the reference VM with 8 workers.
fn default_runs(id: &str, thorough: bool) -> u64 {
    let q = match id {
        "C01" => 1600,
        "C02" => 600,
        "C03" => 1400,
        "C04" => 500,
        "C05" => 1500,
        "C06" => 550,
        "C07" => 24,
        "C08" => 40,
        "C09" => 28,
        "C10" => 160,
        "C11" => 1150,
        "C12" => 230,
        "C13" => 110,
        "C15" => 1250,
        "C16" => 560,
        "C17" => 2500,
        _ => 500,
    };
    if thorough {
        q * 3
    } else {
        q
    }
}

fn evidence_dir() -> PathBuf {
    std::env::var("VERIF_EVIDENCE_DIR").map(PathBuf::from).unwrap_or_else(|_| verif_root().join("evidence"))
}
fn replays_dir() -> PathBuf {
    std::env::var("VERIF_REPLAY_DIR").map(PathBuf::from).unwrap_or_else(|_| verif_root().join("replays"))
}

fn run_check(id: &str, tier: &str) -> i32 {
    let t0 = Instant::now();
    let sc = match scenario(id) {
        Some(s) => s,
        None => {
            eprintln!("wsim: unknown property {}", id);
            return 2;
        }
    };
    let thorough = tier == "thorough";
    // The set of runs of a check is a function of VERIF_SEED alone: a fixed number of runs per tier
    // (calibrated to ~60 s / ~600 s on this VM), with a wall-clock cap only as a safety net. With
    // VERIF_BUDGET_S set and VERIF_MAX_RUNS unset the old behaviour (as many runs as fit) is kept for sweeps.
    let budget_env: Option<u64> = std::env::var("VERIF_BUDGET_S").ok().and_then(|s| s.parse().ok());
    let budget_s0: u64 = budget_env.unwrap_or(if thorough { 2400 } else { 240 });
    let env = Env { bins: bins(), thorough, deadline: t0 + Duration::from_secs(budget_s0) };
    for b in [&env.bins.small, &env.bins.real] {
        if !b.exists() {
            eprintln!("wsim: missing binary {} (run /verif/check setup)", b.display());
            return 2;
        }
    }
    sweep_stale();
    let base_seed: u64 = std::env::var("VERIF_SEED").ok().and_then(|s| s.parse().ok()).unwrap_or(1);
    let budget_s: u64 = budget_s0;
    let max_runs: u64 = std::env::var("VERIF_MAX_RUNS")
        .ok()
        .and_then(|s| s.parse().ok())
        .unwrap_or(if budget_env.is_some() { u64::MAX } else { default_runs(id, thorough) });
    let workers: usize = std::env::var("VERIF_WORKERS").ok().and_then(|s| s.parse().ok()).unwrap_or(8);
    println!("wsim: property={} tier={} VERIF_SEED={} runs={} cap={}s workers={}", id, tier, base_seed, if max_runs == u64::MAX { "unbounded".to_string() } else { max_runs.to_string() }, budget_s, workers);
    let deadline = t0 + Duration::from_secs(budget_s);
    let start_index: u64 = std::env::var("VERIF_START_INDEX").ok().and_then(|s| s.parse().ok()).unwrap_or(0);
    let next = AtomicU64::new(start_index);
    let stop = AtomicBool::new(false);
    let agg = Mutex::new(Agg {
        executions: 0,
        runs: 0,
        keys: BTreeSet::new(),
        findings: vec![],
        samples: vec![],
        stats: BTreeMap::new(),
        harness_errors: vec![],
        nondeterminism: vec![],
        rechecked: 0,
        slowest: (0, 0, 0),
    });
    let idh = rng::fnv64(id.as_bytes());
    // selftest: one line "index seed digest" per run, compared across processes and worker counts
    let digest_log: Option<Mutex<std::fs::File>> = std::env::var("VERIF_DIGEST_LOG").ok().and_then(|p| std::fs::File::create(p).ok()).map(Mutex::new);
    std::thread::scope(|s| {
        for _ in 0..workers {
            s.spawn(|| loop {
                if stop.load(Ordering::SeqCst) || Instant::now() >= deadline {
                    break;
                }
                let i = next.fetch_add(1, Ordering::SeqCst);
                if i >= max_runs.saturating_add(start_index) {
                    break;
                }
                let seed_r = rng::mix(rng::mix(base_seed, idh), i);
                let t_run = Instant::now();
                let out = sc.run_one(seed_r, &env);
                let run_ms = t_run.elapsed().as_millis() as u64;
                let mut out = out;
                // a run that used up its step budget while still making progress (see sim.rs) was
                // cut short, not stuck: nothing is concluded from it
                if out.findings.iter().any(|(_, f)| f.detail.contains(sim::PROGRESSING_MSG)) {
                    out.findings.clear();
                    out.stat("inconclusive.step_budget_while_progressing", 1);
                }
                // a child that was killed by the wall-clock watchdog left a truncated history: the run
                // is a harness error (counted below), and nothing else is concluded from it
                if out.harness_errors.iter().any(|e| e.contains("atchdog")) && !out.findings.is_empty() {
                    out.findings.clear();
                    out.stat("inconclusive.watchdog", 1);
                }
                let mut nondet = false;
                let mut rechecked = 0;
                if i % 100 == 7 {
                    let again = sc.run_one(seed_r, &env);
                    rechecked = 1;
                    // (a run with a child killed by the wall-clock watchdog has a truncated history: not comparable)
                    if again.digest != out.digest && !again.deadline_cut && !out.deadline_cut && out.harness_errors.is_empty() && again.harness_errors.is_empty() {
                        nondet = true;
                    }
                }
                if let Some(l) = digest_log.as_ref() {
                    use std::io::Write;
                    let _ = writeln!(l.lock().unwrap(), "{} {} {:016x}{}", i, seed_r, out.digest, if out.deadline_cut { " cut" } else { "" });
                }
                let mut a = agg.lock().unwrap();
                a.runs += 1;
                if run_ms > a.slowest.0 {
                    a.slowest = (run_ms, seed_r, i);
                }
                a.rechecked += rechecked;
                a.executions += out.executions;
                a.keys.extend(out.keys.iter().copied());
                for (k, v) in out.stats {
                    *a.stats.entry(k).or_insert(0) += v;
                }
                if a.samples.len() < 3 {
                    if let Some(s) = out.sample {
                        a.samples.push(s);
                    }
                }
                for (p, f) in out.findings {
                    if a.findings.len() < 5000 {
                        a.findings.push((i, p, f));
                    }
                }
                a.harness_errors.extend(out.harness_errors);
                if nondet {
                    a.nondeterminism.push(seed_r);
                }
                if a.harness_errors.len() > 50 {
                    stop.store(true, Ordering::SeqCst);
                }
            });
        }
    });
    let mut a = agg.into_inner().unwrap();
    let search_s = t0.elapsed().as_secs_f64();
    // ---- classify findings ----
    let known = load_known();
    a.findings.sort_by_key(|(i, _, f)| (f.rule.clone(), *i));
    if let Ok(p) = std::env::var("VERIF_DUMP_FINDINGS") {
        // analysis aid: every finding of the search (before classification), one JSON object per line
        let mut s = String::new();
        for (i, _, f) in a.findings.iter() {
            s.push_str(&serde_json::json!({"run": i, "rule": f.rule, "facts": f.facts, "known": known_match(&known, id, f).is_some(), "detail": f.detail.chars().take(200).collect::<String>()}).to_string());
            s.push('\n');
        }
        let _ = std::fs::write(p, s);
    }
    let mut known_hits: BTreeMap<String, (u64, String)> = BTreeMap::new();
    let mut new_by_rule: BTreeMap<String, Vec<(u64, Plan, Finding)>> = BTreeMap::new();
    for (i, p, f) in a.findings.iter() {
        if let Some(k) = known_match(&known, id, f) {
            let e = known_hits.entry(format!("{} {}", k.rule, k.summary)).or_insert((0, f.detail.clone()));
            e.0 += 1;
        } else {
            new_by_rule.entry(f.rule.clone()).or_default().push((*i, p.clone(), f.clone()));
        }
    }
    let mut violations = 0;
    let replay_dir = replays_dir();
    let _ = std::fs::create_dir_all(&replay_dir);
    let mut violation_lines = Vec::new();
    for (rule, list) in new_by_rule.iter() {
        violations += 1;
        let (_i, plan, f) = &list[0];
        let min_deadline = Instant::now() + Duration::from_secs(if thorough { 120 } else { 45 });
        let (mplan, tries) = minimise(sc.as_ref(), &env, plan, rule, 200, min_deadline);
        // final run of the minimised plan: record what it shows
        let (fs, hh) = sc.judge_plan(&mplan, &env);
        let (fplan, ff, hh, minimised) = match fs.into_iter().find(|x| &x.rule == rule) {
            Some(x) => (mplan, x, hh, true),
            None => {
                let (fs2, hh2) = sc.judge_plan(plan, &env);
                (plan.clone(), fs2.into_iter().find(|x| &x.rule == rule).unwrap_or_else(|| f.clone()), hh2, false)
            }
        };
        let rf = ReplayFile {
            property: id.into(),
            rule: rule.clone(),
            detail: ff.detail.clone(),
            facts: ff.facts.clone(),
            history_hash: format!("{:016x}", hh),
            minimised,
            plan: fplan.clone(),
        };
        // the unminimised plan is kept alongside
        let orig = ReplayFile {
            property: id.into(),
            rule: rule.clone(),
            detail: f.detail.clone(),
            facts: f.facts.clone(),
            history_hash: String::new(),
            minimised: false,
            plan: plan.clone(),
        };
        let opath = replay_dir.join(format!("{}-{}-{}.orig.json", id, rule.replace('.', "_"), fplan.seed));
        let _ = std::fs::write(&opath, serde_json::to_vec(&orig).unwrap());
        println!("  original (run index {}): {} facts: {}", _i, f.detail.chars().take(300).collect::<String>(), serde_json::to_string(&f.facts).unwrap());
        let path = replay_dir.join(format!("{}-{}-{}.json", id, rule.replace('.', "_"), fplan.seed));
        std::fs::write(&path, serde_json::to_vec_pretty(&rf).unwrap()).expect("write replay");
        println!(
            "finding: rule={} occurrences={} minimised_ops={} (from {}, {} candidate runs) detail: {}",
            rule,
            list.len(),
            flatten_len(&fplan),
            flatten_len(plan),
            tries,
            ff.detail
        );
        println!("  facts: {}", serde_json::to_string(&ff.facts).unwrap());
        violation_lines.push(format!("VIOLATION property={} replay={}", id, path.display()));
    }
    for (k, (n, d)) in known_hits.iter() {
        println!("KNOWN-FINDING: property={} {} (seen {} times; e.g. {})", id, k, n, d.chars().take(160).collect::<String>());
    }
    // ---- evidence ----
    let wall = t0.elapsed().as_secs_f64();
    let sim_ms = a.stats.get("sim_clock_ms").copied().unwrap_or(0);
    let faults: BTreeMap<&String, &u64> = a.stats.iter().filter(|(k, _)| k.starts_with("fault.")).collect();
    let probes: BTreeMap<&String, &u64> = a.stats.iter().filter(|(k, _)| k.starts_with("probe.") || k.starts_with("model.") || k.starts_with("reach.")).collect();
    let ev = serde_json::json!({
        "property_id": id,
        "tier": tier,
        "seed": base_seed,
        "level": sc.level(),
        "coverage": {
            "evaluations": a.executions,
            "distinct_nontrivial": a.keys.len(),
            "rule": sc.rule_text(),
            "samples": a.samples,
            "simulated_runs": a.runs,
            "runs_per_hour": if search_s > 0.0 { (a.runs as f64 / search_s * 3600.0) as u64 } else { 0 },
            "simulated_time_ms": sim_ms,
            "scheduler_steps": a.stats.get("sim_steps").copied().unwrap_or(0),
            "context_switches": a.stats.get("sim_switches").copied().unwrap_or(0),
            "io_events": a.stats.get("io_events").copied().unwrap_or(0),
            "faults_fired": faults,
            "probes": probes,
            "other_stats": a.stats.iter().filter(|(k, _)| !k.starts_with("fault.") && !k.starts_with("probe.") && !k.starts_with("model.")).collect::<BTreeMap<_, _>>(),
            "determinism_rechecks": a.rechecked,
            "determinism_mismatches": a.nondeterminism.len(),
            "components": sc.components(),
            "known_findings_hit": known_hits.iter().map(|(k, v)| (k.clone(), v.0)).collect::<BTreeMap<_, _>>(),
            "harness_errors": a.harness_errors.len(),
        },
        "assumptions": [
            "process-crash model: completed syscalls persist (tmpfs); power loss is modelled separately (C10)",
            "one simulated thread runs at a time; every lock acquisition, atomic access, channel operation, sleep and mutating I/O event of the engine is a scheduling point",
            "seeded sampling, not exhaustive enumeration"
        ],
        "wall_s": wall,
        "violations": violations,
    });
    let evdir = evidence_dir();
    let _ = std::fs::create_dir_all(&evdir);
    std::fs::write(evdir.join(format!("{}.json", id)), serde_json::to_vec_pretty(&ev).unwrap()).expect("evidence");
    println!(
        "wsim: {} runs, {} child executions, {} distinct non-trivial, {:.1}s, violations={}, known={}, harness_errors={}, nondet={}",
        a.runs,
        a.executions,
        a.keys.len(),
        wall,
        violations,
        known_hits.len(),
        a.harness_errors.len(),
        a.nondeterminism.len()
    );
    println!("wsim: slowest run {} ms (run index {}, seed_r {})", a.slowest.0, a.slowest.2, a.slowest.1);
    for e in a.harness_errors.iter().take(3) {
        println!("harness-error: {}", e.chars().take(400).collect::<String>());
    }
    if !a.nondeterminism.is_empty() {
        eprintln!("wsim: NONDETERMINISM for seeds {:?}", &a.nondeterminism[..a.nondeterminism.len().min(5)]);
        return 2;
    }
    if !a.harness_errors.is_empty() && (a.harness_errors.len() as u64 * 10 > a.runs || a.harness_errors.len() > 50) {
        eprintln!("wsim: harness errors: {:?}", &a.harness_errors[..a.harness_errors.len().min(5)]);
        return 2;
    }
    if a.keys.len() < 2 {
        eprintln!("wsim: too few non-trivial runs ({}) - no usable evidence", a.keys.len());
        return 2;
    }
    for l in violation_lines.iter() {
        println!("{}", l);
    }
    if violations > 0 {
        1
    } else {
        0
    }
}

fn replay(path: &str) -> i32 {
    let rf: ReplayFile = match std::fs::read(path).ok().and_then(|b| serde_json::from_slice(&b).ok()) {
        Some(r) => r,
        None => {
            eprintln!("wsim: cannot read replay file {}", path);
            return 2;
        }
    };
    let sc = match scenario(&rf.property) {
        Some(s) => s,
        None => return 2,
    };
    let env = Env { bins: bins(), thorough: false, deadline: Instant::now() + Duration::from_secs(3600) };
    let (fs, hh) = sc.judge_plan(&rf.plan, &env);
    let hhs = format!("{:016x}", hh);
    println!("replay: property={} rule={} recorded_hash={} replay_hash={}", rf.property, rf.rule, rf.history_hash, hhs);
    for f in fs.iter() {
        println!("  finding: {} op={} {}", f.rule, f.op, f.detail);
    }
    let same = fs.iter().any(|f| f.rule == rf.rule);
    if hhs != rf.history_hash && std::env::var("WSIM_ALLOW_HASH_DIFF").is_err() {
        // the code under /repo may have changed since the file was written; say so, do not guess
        println!("replay: history differs from the recording (different code or nondeterminism)");
        if same {
            println!("VIOLATION property={} replay={}", rf.property, path);
            return 1;
        }
        return 3;
    }
    if same {
        println!("VIOLATION property={} replay={}", rf.property, path);
        1
    } else {
        println!("replay: the recorded violation did not reproduce");
        0
    }
}

fn main() {
    let args: Vec<String> = std::env::args().collect();
    let code = match args.get(1).map(|s| s.as_str()) {
        Some("child") => {
            let plan = args.get(2).expect("plan");
            let inc: usize = args.get(3).and_then(|s| s.parse().ok()).expect("inc");
            let clock: Option<u64> = args.get(4).and_then(|s| s.parse().ok());
            child::run_child(plan, inc, clock)
        }
        Some("run") => run_check(args.get(2).map(|s| s.as_str()).unwrap_or(""), args.get(3).map(|s| s.as_str()).unwrap_or("quick")),
        Some("replay") => replay(args.get(2).map(|s| s.as_str()).unwrap_or("")),
        Some("plan") => {
            let id = args.get(2).cloned().unwrap_or_default();
            let seed: u64 = args.get(3).and_then(|s| s.parse().ok()).unwrap_or(1);
            match props::plan_for(&id, seed) {
                Some(p) => {
                    println!("{}", serde_json::to_string(&p).unwrap());
                    0
                }
                None => 2,
            }
        }
        Some("exec") => {
            // run an explicit plan file once, keep the directory, print the history
            let p: Plan = serde_json::from_slice(&std::fs::read(args.get(2).expect("plan file")).expect("read")).expect("parse");
            let rr = run_plan(&bins(), &p, &RunOpts { keep_dir: true, ..Default::default() });
            for (i, inc) in rr.incs.iter().enumerate() {
                println!("== incarnation {} exit={:?} stderr={}", i, inc.exit, inc.stderr);
                for e in &inc.events {
                    println!("{}", serde_json::to_string(e).unwrap());
                }
            }
            println!("dir={} hash={:016x}", rr.dir.display(), history_hash(&rr));
            0
        }
        _ => {
            eprintln!("usage: wsim run <ID> quick|thorough | replay <file> | plan <ID> <seed> | exec <plan.json>");
            2
        }
    };
    std::process::exit(code);
}
