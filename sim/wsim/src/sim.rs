//! The simulator that lives inside a child process: one-runner scheduler over
//! real threads, virtual clock, I/O event numbering, fault plane, history log.
use crate::plan::{Act, Ev, Fault, IoRec, SchedCfg, Sel};
use crate::rng::{fnv_step, Rng};
use std::cell::Cell;
use std::io::Write;
use std::sync::{Condvar, Mutex, MutexGuard};
use std::time::Duration;
use walrus_rust::wal::verif::{
    Hooks, IoEvent, IoKind, IoVerdict, Site, UringVerdict, UringWrite,
};

pub const EXIT_OK: i32 = 0;
pub const EXIT_CRASH: i32 = 77;
pub const EXIT_DEADLOCK: i32 = 78;
pub const EXIT_NONTERM: i32 = 79;
pub const EXIT_HARNESS: i32 = 2;

const MAX_THREADS: usize = 64;

#[derive(Clone, Copy, PartialEq, Eq, Debug)]
enum Status {
    Runnable,
    Blocked,
    Sleeping,
    TimedWait,
    Spinning,
    Exited,
}

#[derive(Clone, Copy)]
struct ReadyPtr(*const (dyn Fn() -> bool + 'static));
unsafe impl Send for ReadyPtr {}

struct T {
    name: String,
    status: Status,
    wake_at: u128,
    stall_until: u64,
    ready: Option<ReadyPtr>,
    is_client: bool,
    prio: u64,
    cur_op: Option<u32>,
    op_io: u32,
    site: String,
}

pub struct Inner {
    threads: Vec<T>,
    current: usize,
    pub step: u64,
    pub clock_ns: u128,
    rng: Rng,
    cfg: SchedCfg,
    pct_points: Vec<u64>,
    pct_low: u64,
    pub switches: u64,
    pub sched_hash: u64,
    pub io_n: u64,
    /// step of the last client-visible progress (mutating I/O event, API invocation or return)
    pub last_progress: u64,
    faults: Vec<(Fault, bool)>,
    pending_exit_after_store: bool,
    pub step_budget: u64,
    buggify: Vec<String>,
    pub probes: std::collections::BTreeMap<String, u64>,
    pub faults_fired: std::collections::BTreeMap<String, u64>,
    trace_io: bool,
}

pub struct Sim {
    inner: Mutex<Inner>,
    cvs: Vec<Condvar>,
    log: Mutex<std::fs::File>,
    trace: Mutex<Option<std::fs::File>>,
}

thread_local! {
    static TID: Cell<Option<usize>> = const { Cell::new(None) };
}

fn my_tid() -> Option<usize> {
    TID.with(|t| t.get())
}

/// steps without any mutating I/O event or API event after which a run that exhausts its step
/// budget counts as stuck
pub const PROGRESS_WINDOW: u64 = 150_000;
pub const PROGRESSING_MSG: &str = "step budget exceeded while progressing";

impl Sim {
    pub fn new(
        cfg: SchedCfg,
        clock_start_ms: u64,
        faults: Vec<Fault>,
        buggify: Vec<String>,
        trace_io: bool,
        log: std::fs::File,
        trace: Option<std::fs::File>,
    ) -> Sim {
        let mut rng = Rng::new(cfg.seed ^ 0x5EED_5C4E_D000);
        let mut pct_points = Vec::new();
        if cfg.policy == "pct" {
            for _ in 1..cfg.pct_depth.max(1) {
                pct_points.push(rng.below(cfg.pct_span.max(1)));
            }
            pct_points.sort();
        }
        let budget = if cfg.step_budget > 0 { cfg.step_budget } else { 3_000_000 };
        let inner = Inner {
            threads: Vec::new(),
            current: 0,
            step: 0,
            clock_ns: (clock_start_ms as u128) * 1_000_000,
            rng,
            cfg,
            pct_points,
            pct_low: 1 << 20,
            switches: 0,
            sched_hash: 0xcbf29ce484222325,
            io_n: 0,
            last_progress: 0,
            faults: faults.into_iter().map(|f| (f, false)).collect(),
            pending_exit_after_store: false,
            step_budget: budget,
            buggify,
            probes: Default::default(),
            faults_fired: Default::default(),
            trace_io,
        };
        Sim {
            inner: Mutex::new(inner),
            cvs: (0..MAX_THREADS).map(|_| Condvar::new()).collect(),
            log: Mutex::new(log),
            trace: Mutex::new(trace),
        }
    }

    /// Register the calling (main) thread as simulated thread 0.
    pub fn register_main(&self) {
        let mut g = self.inner.lock().unwrap();
        assert!(g.threads.is_empty());
        let prio = g.rng.next() >> 16;
        g.threads.push(T {
            name: "main".into(),
            status: Status::Runnable,
            wake_at: 0,
            stall_until: 0,
            ready: None,
            is_client: true,
            prio,
            cur_op: None,
            op_io: 0,
            site: String::new(),
        });
        g.current = 0;
        TID.with(|t| t.set(Some(0)));
    }

    pub fn log_ev(&self, ev: &Ev) {
        let mut line = serde_json::to_vec(ev).unwrap();
        line.push(b'\n');
        let mut f = self.log.lock().unwrap();
        let _ = f.write_all(&line);
    }

    pub fn step_now(&self) -> u64 {
        self.inner.lock().unwrap().step
    }

    pub fn tid(&self) -> u32 {
        my_tid().unwrap_or(999) as u32
    }

    pub fn set_op(&self, op: Option<u32>) {
        if let Some(me) = my_tid() {
            let mut g = self.inner.lock().unwrap();
            g.threads[me].cur_op = op;
            g.threads[me].op_io = 0;
            g.last_progress = g.step;
        }
    }

    pub fn summary(&self) -> serde_json::Value {
        let g = self.inner.lock().unwrap();
        serde_json::json!({
            "steps": g.step,
            "switches": g.switches,
            "sched_hash": format!("{:016x}", g.sched_hash),
            "io": g.io_n,
            "clock_ms": (g.clock_ns / 1_000_000) as u64,
            "threads": g.threads.len(),
            "probes": g.probes,
            "faults_fired": g.faults_fired,
        })
    }

    fn die(&self, g: &mut Inner, kind: &str, code: i32, msg: String) -> ! {
        let ev = Ev {
            t: kind.into(),
            step: g.step,
            th: my_tid().unwrap_or(999) as u32,
            msg: Some(msg),
            ..Default::default()
        };
        self.log_ev(&ev);
        self.log_ev(&Ev {
            t: "summary".into(),
            step: g.step,
            msg: Some(
                serde_json::json!({
                    "steps": g.step, "switches": g.switches,
                    "sched_hash": format!("{:016x}", g.sched_hash), "io": g.io_n,
                    "clock_ms": (g.clock_ns / 1_000_000) as u64,
                    "probes": g.probes, "faults_fired": g.faults_fired,
                })
                .to_string(),
            ),
            ..Default::default()
        });
        unsafe { libc::_exit(code) }
    }

    fn is_enabled(g: &Inner, i: usize) -> bool {
        let t = &g.threads[i];
        match t.status {
            Status::Runnable => g.step >= t.stall_until,
            Status::Blocked => t.ready.map(|r| unsafe { (*r.0)() }).unwrap_or(true),
            Status::Sleeping => g.clock_ns >= t.wake_at,
            Status::TimedWait => {
                g.clock_ns >= t.wake_at || t.ready.map(|r| unsafe { (*r.0)() }).unwrap_or(true)
            }
            Status::Spinning => false,
            Status::Exited => false,
        }
    }

    fn pick(&self, g: &mut Inner, me: usize) -> usize {
        g.step += 1;
        if g.step > g.step_budget {
            let sites: Vec<String> = g
                .threads
                .iter()
                .map(|t| format!("{}:{:?}@{}", t.name, t.status, t.site))
                .collect();
            // A run that is still performing I/O or completing operations is long, not stuck:
            // the parent counts it as inconclusive instead of reporting non-termination.
            let progressing = g.step - g.last_progress < PROGRESS_WINDOW;
            let what = if progressing { PROGRESSING_MSG } else { "step budget exceeded" };
            self.die(g, "nonterm", EXIT_NONTERM, format!("{}; {:?}", what, sites));
        }
        if g.cfg.ns_per_step > 0 {
            let d = g.rng.range(0, g.cfg.ns_per_step);
            g.clock_ns += d as u128;
        }
        for (i, t) in g.threads.iter_mut().enumerate() {
            if i != me && t.status == Status::Spinning {
                t.status = Status::Runnable;
            }
        }
        let mut enabled: Vec<usize>;
        loop {
            enabled = (0..g.threads.len()).filter(|&i| Self::is_enabled(g, i)).collect();
            if !enabled.is_empty() {
                break;
            }
            if g.threads.iter().any(|t| t.stall_until > g.step) {
                for t in g.threads.iter_mut() {
                    t.stall_until = 0;
                }
                continue;
            }
            let min_wake = g
                .threads
                .iter()
                .filter(|t| matches!(t.status, Status::Sleeping | Status::TimedWait))
                .map(|t| t.wake_at)
                .min();
            match min_wake {
                Some(w) => g.clock_ns = g.clock_ns.max(w),
                None => {
                    let sites: Vec<String> = g
                        .threads
                        .iter()
                        .map(|t| format!("{}:{:?}@{}", t.name, t.status, t.site))
                        .collect();
                    self.die(g, "deadlock", EXIT_DEADLOCK, format!("{:?}", sites));
                }
            }
        }
        // timers may fire early relative to foreground work
        if g.cfg.p_jump > 0.0 && g.rng.chance(g.cfg.p_jump) {
            let min_wake = g
                .threads
                .iter()
                .filter(|t| matches!(t.status, Status::Sleeping | Status::TimedWait))
                .map(|t| t.wake_at)
                .min();
            if let Some(w) = min_wake {
                if w > g.clock_ns {
                    g.clock_ns = w;
                    enabled = (0..g.threads.len()).filter(|&i| Self::is_enabled(g, i)).collect();
                }
            }
        }
        let next = match g.cfg.policy.as_str() {
            "prio" => {
                // clients first (lowest id), background only when no client can run
                let c = enabled.iter().copied().find(|&i| g.threads[i].is_client);
                c.unwrap_or(enabled[0])
            }
            "sticky" => {
                if enabled.contains(&me) && g.rng.chance(g.cfg.sticky_p) {
                    me
                } else {
                    enabled[g.rng.below(enabled.len() as u64) as usize]
                }
            }
            "pct" => {
                if let Some(pos) = g.pct_points.iter().position(|&p| p == g.step) {
                    g.pct_points.remove(pos);
                    g.pct_low -= 1;
                    let low = g.pct_low;
                    g.threads[me].prio = low;
                }
                *enabled.iter().max_by_key(|&&i| g.threads[i].prio).unwrap()
            }
            _ => enabled[g.rng.below(enabled.len() as u64) as usize],
        };
        g.sched_hash = fnv_step(g.sched_hash, (next as u64) | ((enabled.len() as u64) << 8));
        next
    }

    fn reschedule<'a>(&'a self, mut g: MutexGuard<'a, Inner>, me: usize) -> MutexGuard<'a, Inner> {
        let next = self.pick(&mut g, me);
        if next != me {
            g.current = next;
            g.switches += 1;
            self.cvs[next].notify_one();
            while g.current != me {
                g = self.cvs[me].wait(g).unwrap();
            }
        }
        let t = &mut g.threads[me];
        t.status = Status::Runnable;
        t.ready = None;
        g
    }

    fn site_str(site: Site) -> String {
        let f = site.file();
        let short = f.rsplit('/').next().unwrap_or(f);
        format!("{}:{}", short, site.line())
    }

    /// Scheduling point usable by harness code (no site).
    pub fn yield_now(&self) {
        if let Some(me) = my_tid() {
            let g = self.inner.lock().unwrap();
            drop(self.reschedule(g, me));
        }
    }

    /// Block the calling simulated thread until `ready` holds.
    pub fn wait_until(&self, ready: &dyn Fn() -> bool) {
        if let Some(me) = my_tid() {
            self.gate_impl(me, "harness".into(), ready);
        }
    }

    fn gate_impl(&self, me: usize, site: String, ready: &dyn Fn() -> bool) {
        let mut g = self.inner.lock().unwrap();
        let p: *const (dyn Fn() -> bool + '_) = ready;
        // SAFETY: the pointer is only dereferenced while this thread is parked
        // inside this function (its stack frame, and thus `ready`, is alive).
        let p: *const (dyn Fn() -> bool + 'static) = unsafe { std::mem::transmute(p) };
        loop {
            let t = &mut g.threads[me];
            t.site = site.clone();
            if ready() {
                t.status = Status::Runnable;
                t.ready = None;
                g = self.reschedule(g, me);
                // another thread may have run in between; re-check
                if ready() {
                    return;
                }
            } else {
                t.status = Status::Blocked;
                t.ready = Some(ReadyPtr(p));
                g = self.reschedule(g, me);
                if ready() {
                    return;
                }
            }
        }
    }

    fn fault_for(&self, g: &mut Inner, me: usize) -> Option<Act> {
        let io_n = g.io_n;
        let cur_op = g.threads[me].cur_op;
        let op_io = g.threads[me].op_io;
        for (f, fired) in g.faults.iter_mut() {
            if *fired {
                continue;
            }
            let hit = match &f.sel {
                Sel::AtIo(k) => *k == io_n,
                Sel::InOp { op, nth } => Some(*op) == cur_op && *nth == op_io,
            };
            if hit {
                *fired = true;
                return Some(f.act.clone());
            }
        }
        None
    }

    fn count_fault(g: &mut Inner, name: &str) {
        *g.faults_fired.entry(name.to_string()).or_insert(0) += 1;
    }

    fn write_trace(&self, rec: &IoRec, data: Option<&[u8]>) {
        let mut t = self.trace.lock().unwrap();
        if let Some(f) = t.as_mut() {
            let hdr = serde_json::to_vec(rec).unwrap();
            let dl = data.map(|d| d.len()).unwrap_or(0) as u64;
            let _ = f.write_all(&(hdr.len() as u32).to_le_bytes());
            let _ = f.write_all(&dl.to_le_bytes());
            let _ = f.write_all(&hdr);
            if let Some(d) = data {
                let _ = f.write_all(d);
            }
        }
    }
}

/// Harness payloads (topic, seq) found in a WAL file, as JSON `[[topic, seq], ...]`.
/// Independent of the engine's own parser: every position is tried as a payload start.
fn scan_entries(path: &str) -> String {
    let mut found: Vec<(u32, u64)> = Vec::new();
    if let Ok(meta) = std::fs::metadata(path) {
        if meta.len() <= 64 * 1024 * 1024 {
            if let Ok(bytes) = std::fs::read(path) {
                let magic = crate::plan::MAGIC.to_le_bytes();
                let mut i = 0usize;
                while i + crate::plan::HDR <= bytes.len() {
                    if bytes[i..i + 4] == magic {
                        let len = u32::from_le_bytes(bytes[i + 16..i + 20].try_into().unwrap()) as usize;
                        if len >= crate::plan::HDR && i + len <= bytes.len() {
                            if let Some((t, seq)) = crate::plan::parse_payload(&bytes[i..i + len]) {
                                found.push((t, seq));
                                i += len;
                                continue;
                            }
                        }
                    }
                    i += 1;
                }
            }
        } else {
            return "\"too_large\"".into();
        }
    }
    serde_json::to_string(&found).unwrap_or_default()
}

fn kind_name(k: IoKind) -> &'static str {
    match k {
        IoKind::CreateDir => "CreateDir",
        IoKind::Create => "Create",
        IoKind::SetLen => "SetLen",
        IoKind::FileFsync => "FileFsync",
        IoKind::DirFsync => "DirFsync",
        IoKind::Open => "Open",
        IoKind::Store => "Store",
        IoKind::Load => "Load",
        IoKind::Flush => "Flush",
        IoKind::TmpWrite => "TmpWrite",
        IoKind::TmpFsync => "TmpFsync",
        IoKind::Rename => "Rename",
        IoKind::Remove => "Remove",
        IoKind::Exists => "Exists",
        IoKind::ReadDir => "ReadDir",
        IoKind::ReadFile => "ReadFile",
        IoKind::UringSubmit => "UringSubmit",
    }
}

fn is_mutating(k: IoKind) -> bool {
    !matches!(
        k,
        IoKind::Load | IoKind::Exists | IoKind::ReadDir | IoKind::ReadFile | IoKind::Open
    )
}

impl Hooks for Sim {
    fn sched(&self, site: Site) {
        if let Some(me) = my_tid() {
            let mut g = self.inner.lock().unwrap();
            g.threads[me].site = Self::site_str(site);
            drop(self.reschedule(g, me));
        }
    }

    fn gate(&self, site: Site, ready: &dyn Fn() -> bool) {
        if let Some(me) = my_tid() {
            self.gate_impl(me, Self::site_str(site), ready);
        }
    }

    fn spin(&self, site: Site) {
        if let Some(me) = my_tid() {
            let mut g = self.inner.lock().unwrap();
            g.threads[me].site = Self::site_str(site);
            g.threads[me].status = Status::Spinning;
            drop(self.reschedule(g, me));
        }
    }

    fn spawn_register(&self, name: &str) -> u64 {
        if my_tid().is_none() {
            return u64::MAX;
        }
        let mut g = self.inner.lock().unwrap();
        let id = g.threads.len();
        if id >= MAX_THREADS {
            self.die(&mut g, "harness", EXIT_HARNESS, "too many threads".into());
        }
        let prio = g.rng.next() >> 16;
        let is_client = name.starts_with("client");
        let short = name.rsplit('/').next().unwrap_or(name).to_string();
        g.threads.push(T {
            name: short,
            status: Status::Runnable,
            wake_at: 0,
            stall_until: 0,
            ready: None,
            is_client,
            prio,
            cur_op: None,
            op_io: 0,
            site: "unstarted".into(),
        });
        id as u64
    }

    fn thread_start(&self, token: u64) {
        if token == u64::MAX {
            return;
        }
        let me = token as usize;
        TID.with(|t| t.set(Some(me)));
        let mut g = self.inner.lock().unwrap();
        while g.current != me {
            g = self.cvs[me].wait(g).unwrap();
        }
    }

    fn thread_exit(&self) {
        if let Some(me) = my_tid() {
            TID.with(|t| t.set(None));
            let mut g = self.inner.lock().unwrap();
            g.threads[me].status = Status::Exited;
            g.threads[me].ready = None;
            let next = self.pick(&mut g, me);
            g.current = next;
            g.switches += 1;
            self.cvs[next].notify_one();
        }
    }

    fn sleep(&self, d: Duration) {
        if let Some(me) = my_tid() {
            let mut g = self.inner.lock().unwrap();
            let now = g.clock_ns;
            let t = &mut g.threads[me];
            t.status = Status::Sleeping;
            t.wake_at = now + d.as_nanos();
            t.site = "sleep".into();
            drop(self.reschedule(g, me));
        }
    }

    fn timed_wait(&self, site: Site, d: Duration, ready: &dyn Fn() -> bool) -> bool {
        if let Some(me) = my_tid() {
            let mut g = self.inner.lock().unwrap();
            let p: *const (dyn Fn() -> bool + '_) = ready;
            let p: *const (dyn Fn() -> bool + 'static) = unsafe { std::mem::transmute(p) };
            let now = g.clock_ns;
            let t = &mut g.threads[me];
            t.site = Self::site_str(site);
            t.status = Status::TimedWait;
            t.wake_at = now + d.as_nanos();
            t.ready = Some(ReadyPtr(p));
            drop(self.reschedule(g, me));
            ready()
        } else {
            std::thread::sleep(d);
            ready()
        }
    }

    fn now_unix_nanos(&self) -> Option<u128> {
        Some(self.inner.lock().unwrap().clock_ns)
    }

    fn io(&self, ev: &IoEvent<'_>) -> IoVerdict {
        let me = match my_tid() {
            Some(m) => m,
            None => return IoVerdict::Proceed,
        };
        let mut g = self.inner.lock().unwrap();
        if !is_mutating(ev.kind) {
            if g.trace_io && !matches!(ev.kind, IoKind::Load) {
                let rec = IoRec {
                    n: g.io_n,
                    kind: kind_name(ev.kind).into(),
                    path: ev.path.into(),
                    path2: ev.path2.into(),
                    off: ev.off,
                    len: ev.len,
                    hash: None,
                    mmap: false,
                };
                self.write_trace(&rec, None);
            }
            let p = g.cfg.p_load_sched;
            if p > 0.0 && g.rng.chance(p) {
                g.threads[me].site = kind_name(ev.kind).into();
                drop(self.reschedule(g, me));
            }
            return IoVerdict::Proceed;
        }
        g.io_n += 1;
        g.threads[me].op_io += 1;
        g.last_progress = g.step;
        let rec = IoRec {
            n: g.io_n,
            kind: kind_name(ev.kind).into(),
            path: ev.path.into(),
            path2: ev.path2.into(),
            off: ev.off,
            len: ev.len,
            hash: ev.data.map(crate::rng::fnv64),
            mmap: ev.mmap,
        };
        let step = g.step;
        let cur_op = g.threads[me].cur_op;
        // a file about to be deleted: record which harness entries it still holds (C12/C13)
        let msg = if ev.kind == IoKind::Remove { Some(scan_entries(ev.path)) } else { None };
        self.log_ev(&Ev {
            t: "io".into(),
            step,
            th: me as u32,
            op: cur_op,
            io: Some(rec.clone()),
            msg,
            ..Default::default()
        });
        if g.trace_io {
            self.write_trace(&rec, ev.data);
        }
        let mut verdict = IoVerdict::Proceed;
        while let Some(act) = self.fault_for(&mut g, me) {
            match act {
                Act::Stall { steps } => {
                    Self::count_fault(&mut g, "stall");
                    g.threads[me].stall_until = g.step + steps;
                    g.threads[me].site = "stalled".into();
                    g.threads[me].status = Status::Runnable;
                    g = self.reschedule(g, me);
                    g.threads[me].stall_until = 0;
                    continue;
                }
                Act::Crash | Act::UringCrashSubset { .. } => {
                    Self::count_fault(&mut g, "crash");
                    let m = format!("crash before io {} {}", rec.n, rec.kind);
                    self.die(&mut g, "crash", EXIT_CRASH, m);
                }
                Act::Torn { n } => {
                    if ev.kind == IoKind::Store {
                        Self::count_fault(&mut g, "crash_torn");
                        g.pending_exit_after_store = true;
                        self.log_ev(&Ev {
                            t: "fault".into(),
                            step,
                            th: me as u32,
                            op: cur_op,
                            msg: Some(format!("torn store n={} of {} at io {}", n, ev.len, rec.n)),
                            ..Default::default()
                        });
                        return IoVerdict::Torn(n.min(ev.len));
                    } else {
                        Self::count_fault(&mut g, "crash");
                        let m = format!("crash before io {} {}", rec.n, rec.kind);
                        self.die(&mut g, "crash", EXIT_CRASH, m);
                    }
                }
                Act::Fail { errno } => {
                    Self::count_fault(&mut g, &format!("fail_{}", rec.kind));
                    self.log_ev(&Ev {
                        t: "fault".into(),
                        step,
                        th: me as u32,
                        op: cur_op,
                        msg: Some(format!("fail errno={} at io {} {}", errno, rec.n, rec.kind)),
                        ..Default::default()
                    });
                    verdict = IoVerdict::FailBefore(errno);
                }
                Act::UringFailSubmit { .. } | Act::UringCqe { .. } => {}
            }
            break;
        }
        g.threads[me].site = kind_name(ev.kind).into();
        drop(self.reschedule(g, me));
        verdict
    }

    fn after_store(&self) {
        if my_tid().is_none() {
            return;
        }
        let mut g = self.inner.lock().unwrap();
        if g.pending_exit_after_store {
            self.die(&mut g, "crash", EXIT_CRASH, "crash after torn store".into());
        }
    }

    fn uring_submit(&self, writes: &[UringWrite]) -> UringVerdict {
        let me = match my_tid() {
            Some(m) => m,
            None => return UringVerdict::Proceed,
        };
        let mut g = self.inner.lock().unwrap();
        g.io_n += 1;
        g.threads[me].op_io += 1;
        g.last_progress = g.step;
        let step = g.step;
        let cur_op = g.threads[me].cur_op;
        let rec = IoRec {
            n: g.io_n,
            kind: "UringSubmit".into(),
            path: writes.first().map(|w| w.path.clone()).unwrap_or_default(),
            path2: String::new(),
            off: writes.first().map(|w| w.off).unwrap_or(0),
            len: writes.len() as u64,
            hash: None,
            mmap: false,
        };
        self.log_ev(&Ev {
            t: "io".into(),
            step,
            th: me as u32,
            op: cur_op,
            io: Some(rec.clone()),
            ..Default::default()
        });
        if g.trace_io {
            // one trace record per planned write, flagged as part of a uring batch
            for w in writes {
                let data = unsafe { std::slice::from_raw_parts(w.ptr, w.len) };
                let r = IoRec {
                    n: g.io_n,
                    kind: "UringWrite".into(),
                    path: w.path.clone(),
                    path2: String::new(),
                    off: w.off,
                    len: w.len as u64,
                    hash: None,
                    mmap: false,
                };
                self.write_trace(&r, Some(data));
            }
        }
        let mut verdict = UringVerdict::Proceed;
        while let Some(act) = self.fault_for(&mut g, me) {
            match act {
                Act::Stall { steps } => {
                    Self::count_fault(&mut g, "stall");
                    g.threads[me].stall_until = g.step + steps;
                    g.threads[me].site = "stalled".into();
                    g.threads[me].status = Status::Runnable;
                    g = self.reschedule(g, me);
                    g.threads[me].stall_until = 0;
                    continue;
                }
                Act::Crash | Act::Torn { .. } => {
                    Self::count_fault(&mut g, "crash");
                    self.die(&mut g, "crash", EXIT_CRASH, format!("crash before uring submit io {}", rec.n));
                }
                Act::UringCrashSubset { keep } => {
                    Self::count_fault(&mut g, "crash_uring_subset");
                    let mut kept = Vec::new();
                    for (i, w) in writes.iter().enumerate() {
                        if keep.get(i).copied().unwrap_or(false) {
                            let data = unsafe { std::slice::from_raw_parts(w.ptr, w.len) };
                            unsafe {
                                libc::pwrite(w.fd, data.as_ptr() as *const libc::c_void, data.len(), w.off as i64);
                            }
                            kept.push(w.user_data);
                        }
                    }
                    self.die(
                        &mut g,
                        "crash",
                        EXIT_CRASH,
                        format!("crash during uring batch io {} kept={:?} of {}", rec.n, kept, writes.len()),
                    );
                }
                Act::UringFailSubmit { errno } | Act::Fail { errno } => {
                    Self::count_fault(&mut g, "uring_fail_submit");
                    self.log_ev(&Ev {
                        t: "fault".into(),
                        step,
                        th: me as u32,
                        op: cur_op,
                        msg: Some(format!("uring submit fails errno={} at io {}", errno, rec.n)),
                        ..Default::default()
                    });
                    verdict = UringVerdict::FailSubmit(errno);
                }
                Act::UringCqe { idx, res } => {
                    // re-arm as a pending completion override
                    g.faults.push((
                        Fault { sel: Sel::AtIo(u64::MAX), act: Act::UringCqe { idx, res } },
                        false,
                    ));
                }
            }
            break;
        }
        g.threads[me].site = "UringSubmit".into();
        drop(self.reschedule(g, me));
        verdict
    }

    fn uring_cqe(&self, w: &UringWrite, res: i32) -> i32 {
        if my_tid().is_none() {
            return res;
        }
        let mut g = self.inner.lock().unwrap();
        let mut out = res;
        let mut fired_msg = None;
        for (f, fired) in g.faults.iter_mut() {
            if *fired {
                continue;
            }
            if let (Sel::AtIo(u64::MAX), Act::UringCqe { idx, res: r }) = (&f.sel, &f.act) {
                if *idx == w.user_data {
                    *fired = true;
                    out = *r;
                    if *r >= 0 && (*r as usize) < w.len {
                        // short write: the tail was not written
                        let zeros = vec![0u8; w.len - *r as usize];
                        unsafe {
                            libc::pwrite(
                                w.fd,
                                zeros.as_ptr() as *const libc::c_void,
                                zeros.len(),
                                (w.off + *r as u64) as i64,
                            );
                        }
                    }
                    fired_msg = Some(format!("uring cqe idx={} res={} (real {})", idx, r, res));
                    break;
                }
            }
        }
        if let Some(m) = fired_msg {
            Self::count_fault(&mut g, if out < 0 { "uring_cqe_error" } else { "uring_cqe_short" });
            let step = g.step;
            self.log_ev(&Ev { t: "fault".into(), step, msg: Some(m), ..Default::default() });
        }
        out
    }

    fn probe(&self, name: &'static str) {
        if let Some(me) = my_tid() {
            let mut g = self.inner.lock().unwrap();
            *g.probes.entry(name.to_string()).or_insert(0) += 1;
            // also part of the history (with the operation it happened in): the oracles use it for facts
            let (step, cur_op) = (g.step, g.threads[me].cur_op);
            self.log_ev(&Ev { t: "probe".into(), step, th: me as u32, op: cur_op, msg: Some(name.to_string()), ..Default::default() });
        }
    }

    fn buggify(&self, name: &'static str) -> bool {
        if my_tid().is_none() {
            return false;
        }
        let g = self.inner.lock().unwrap();
        g.buggify.iter().any(|b| b == name)
    }

    fn api(&self, _op: &'static str, _topic: &str, _n: usize) {}
}
