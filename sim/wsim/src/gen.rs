//! Seeded plan generators (pure functions of the run seed and the profile).
use crate::plan::*;
use crate::rng::{mix, Rng};

#[derive(Clone, Copy, Debug)]
pub struct Geom {
    pub block: u64,
    pub blocks_per_file: u64,
    pub max_alloc: u64,
    pub max_batch_bytes: u64,
}

pub const SMALL: Geom = Geom { block: 64 * 1024, blocks_per_file: 8, max_alloc: 536_870, max_batch_bytes: 4 * 1024 * 1024 };
pub const REAL: Geom = Geom {
    block: 10 * 1024 * 1024,
    blocks_per_file: 100,
    max_alloc: 1024 * 1024 * 1024,
    max_batch_bytes: 10 * 1024 * 1024 * 1024,
};

pub fn geom(name: &str) -> Geom {
    if name == "real" {
        REAL
    } else {
        SMALL
    }
}

pub const TOPIC_POOL: &[&str] = &[
    "t0",
    "orders",
    "t\u{f3}pic-\u{2713}",
    "a_s_1",
    "evts.2024-01",
    // close to, but below, the entry-header limit
    "long_long_long_long_long_long_long_long_long_long_long_long_long_long_long_long_long_long_long_long_long_long_long_long_long_long_long_long_long_long_long_long_long_long_long_long_long_x",
];

#[derive(Clone, Debug)]
pub struct SeqOpts {
    pub property: &'static str,
    pub profile: &'static str,
    pub ops: (u64, u64),
    pub max_topics: u64,
    pub p_real: f64,
    /// weights: append, batch_append, read_next, batch_read, count, peek pair, offset read, marker op, reject op, sleep
    pub w: [u32; 10],
    pub allow_empty: bool,
    pub allow_big: bool,
    /// number of incarnations (fresh-process restarts) range
    pub incarnations: (u64, u64),
    pub p_same_process_restart: f64,
    pub alo_p: f64,
    pub clock_jumps: bool,
    pub snap_around_peeks: bool,
    pub final_drain: bool,
    pub prio_sched: bool,
    pub fixed_backend: Option<&'static str>,
    pub count_after_every_op: bool,
    pub fsync_choices: &'static [&'static str],
}

impl SeqOpts {
    pub fn base(property: &'static str, profile: &'static str) -> Self {
        SeqOpts {
            property,
            profile,
            ops: (5, 60),
            max_topics: 3,
            p_real: 0.1,
            w: [30, 12, 20, 20, 6, 0, 0, 0, 0, 2],
            allow_empty: true,
            allow_big: true,
            incarnations: (1, 1),
            p_same_process_restart: 0.0,
            alo_p: 0.3,
            clock_jumps: false,
            snap_around_peeks: false,
            final_drain: true,
            prio_sched: false,
            fixed_backend: None,
            count_after_every_op: false,
            fsync_choices: &["ms:1", "ms:200", "each", "none"],
        }
    }
}

pub fn gen_sched(rng: &mut Rng, threads_hint: u64) -> SchedCfg {
    let policy = *rng.pick(&["random", "sticky", "sticky", "pct"]);
    SchedCfg {
        seed: rng.next(),
        policy: policy.into(),
        sticky_p: *rng.pick(&[0.5, 0.9, 0.98]),
        pct_depth: rng.range(1, 3) as u32,
        pct_span: 200 * threads_hint.max(1) * rng.range(1, 20),
        ns_per_step: *rng.pick(&[1_000u64, 20_000, 50_000, 500_000]),
        p_jump: *rng.pick(&[0.0, 0.002, 0.02, 0.2]),
        p_load_sched: *rng.pick(&[0.0, 0.05, 0.3]),
        step_budget: 0,
    }
}

/// Payload length classes, relative to the geometry.
pub fn gen_len(rng: &mut Rng, g: Geom, allow_empty: bool, allow_big: bool) -> u64 {
    let cap = g.block - 256;
    let mut w = vec![3u32, 10, 25, 6, 25, 8, 6, 3, 2, 1];
    if !allow_empty {
        w[0] = 0;
    }
    if !allow_big {
        w[7] = 0;
        w[8] = 0;
        w[9] = 0;
    }
    match rng.weighted(&w) {
        0 => 0,
        1 => rng.range(1, 23),
        2 => rng.range(24, 127),
        3 => 128,
        4 => rng.range(129, 4096),
        5 => rng.range(cap.saturating_sub(3), cap + 3),
        6 => rng.range(cap / 4, cap / 2),
        7 => cap + g.block / 2 + rng.range(0, 64),
        8 => 2 * g.block + g.block / 2 - rng.range(0, 600),
        _ => {
            if g.block > 1024 * 1024 {
                // shipped geometry: a ~1 GiB payload per run is not affordable; use the multi-block class
                2 * g.block + g.block / 2 - rng.range(0, 600)
            } else {
                let top = g.max_alloc.min(g.block * g.blocks_per_file) - 256;
                rng.range(top - 4, top)
            }
        }
    }
}

struct TopicTrack {
    lens: Vec<u64>,
    cursor: usize,
}

pub struct IdGen(pub u32);
impl IdGen {
    pub fn next(&mut self) -> u32 {
        self.0 += 1;
        self.0
    }
}

pub fn gen_budget(rng: &mut Rng, g: Geom, t: Option<&(Vec<u64>, usize)>) -> u64 {
    let (lens, cur): (&[u64], usize) = match t {
        Some((l, c)) => (l.as_slice(), *c),
        None => (&[], 0),
    };
    let next = lens.get(cur).copied().unwrap_or(100);
    let next2 = lens.get(cur + 1).copied().unwrap_or(100);
    match rng.below(14) {
        0 => 0,
        1 => 1,
        2 => next.saturating_sub(1),
        3 => next,
        4 => next + 1,
        5 => next + next2,
        6 => (next + next2).saturating_sub(1),
        7 => {
            // roughly the bytes of the next few entries
            let k = rng.range(1, 6) as usize;
            lens.iter().skip(cur).take(k).sum::<u64>() + rng.range(0, 2)
        }
        8 => rng.range(100, 2000),
        9 => g.block,
        10 => 20 * 1024 * 1024,
        11 => u64::MAX,
        12 => u64::MAX - rng.range(0, 300),
        _ => rng.range(0, 3 * g.block),
    }
}

/// The sequential profile behind C01/C02/C03/C06/C15/C16/C17: one client thread per phase.
pub fn gen_seq(seed: u64, o: &SeqOpts) -> Plan {
    let mut rng = Rng::new(mix(seed, 0x5E9));
    let geometry = if rng.chance(o.p_real) { "real" } else { "small" };
    let g = geom(geometry);
    let n_topics = rng.range(1, o.max_topics) as usize;
    let mut pool: Vec<&str> = TOPIC_POOL.to_vec();
    let mut topics = Vec::new();
    for _ in 0..n_topics {
        let i = rng.below(pool.len() as u64) as usize;
        topics.push(pool.remove(i).to_string());
    }
    let alo = if rng.chance(o.alo_p) { rng.range(1, 8) as u32 } else { 0 };
    let fsync = rng.pick(o.fsync_choices).to_string();
    let backend = o.fixed_backend.map(|s| s.to_string()).unwrap_or_else(|| rng.pick(&["fd", "fd", "mmap"]).to_string());
    let n_inc = rng.range(o.incarnations.0, o.incarnations.1) as usize;
    let total_ops = rng.range(o.ops.0, o.ops.1);
    // real geometry: keep the data volume down
    let total_ops = if geometry == "real" { total_ops.min(30) } else { total_ops };
    let mut ids = IdGen(0);
    let mut tracks: Vec<TopicTrack> = (0..n_topics).map(|_| TopicTrack { lens: vec![], cursor: 0 }).collect();
    let mut incarnations = Vec::new();
    let clock_ms: u64 = 1_700_000_000_000 + rng.below(1_000_000);
    let open_op = |ids: &mut IdGen| Op {
        id: ids.next(),
        kind: OpKind::Open { inst: 0, key: Some("k".into()), dir: "d".into(), alo, fsync: fsync.clone(), via_env: false },
    };
    let mut big_budget = if geometry == "real" { 3 } else { 12 };
    let mut clock_delta: i64 = 0;
    for inc_i in 0..n_inc {
        let mut ops: Vec<Op> = vec![open_op(&mut ids)];
        let n_here = (total_ops / n_inc as u64).max(1);
        let mut k = 0;
        while k < n_here {
            k += 1;
            let t = rng.below(n_topics as u64) as u32;
            let tr = &mut tracks[t as usize];
            let choice = rng.weighted(&o.w);
            match choice {
                0 => {
                    let mut len = gen_len(&mut rng, g, o.allow_empty, o.allow_big && big_budget > 0);
                    if len > g.block {
                        big_budget -= 1;
                    }
                    if geometry == "real" && len > 4096 && len < g.block / 2 {
                        len %= 8192;
                    }
                    tr.lens.push(len);
                    ops.push(Op { id: ids.next(), kind: OpKind::Append { inst: 0, topic: t, len } });
                }
                1 => {
                    let n = match rng.below(10) {
                        0 => 1,
                        1..=5 => rng.range(2, 8),
                        6..=8 => rng.range(8, 60),
                        _ => rng.range(200, 2000),
                    };
                    let mut lens = Vec::new();
                    let tiny = n > 60;
                    for _ in 0..n {
                        let l = if tiny {
                            rng.range(if o.allow_empty { 0 } else { 1 }, 40)
                        } else {
                            let l = gen_len(&mut rng, g, o.allow_empty, o.allow_big && big_budget > 0 && geometry != "real");
                            if l > g.block {
                                big_budget -= 1;
                            }
                            if geometry == "real" && l > 4096 { l % 8192 } else { l }
                        };
                        lens.push(l);
                    }
                    tr.lens.extend(lens.iter().copied());
                    ops.push(Op { id: ids.next(), kind: OpKind::BatchAppend { inst: 0, topic: t, lens } });
                }
                2 => {
                    if tr.cursor < tr.lens.len() {
                        tr.cursor += 1;
                    }
                    ops.push(Op { id: ids.next(), kind: OpKind::ReadNext { inst: 0, topic: t, checkpoint: true } });
                }
                3 => {
                    let snapshot = (tr.lens.clone(), tr.cursor);
                    let b = gen_budget(&mut rng, g, Some(&snapshot));
                    // approximate cursor advance (the model in the oracle is exact; this only guides budgets)
                    let mut sum = 0u64;
                    let mut n = 0;
                    while tr.cursor < tr.lens.len() && n < 2000 {
                        let l = tr.lens[tr.cursor];
                        if n > 0 && sum + l > b {
                            break;
                        }
                        sum += l;
                        n += 1;
                        tr.cursor += 1;
                        if sum >= b {
                            break;
                        }
                    }
                    ops.push(Op {
                        id: ids.next(),
                        kind: OpKind::BatchRead { inst: 0, topic: t, max_bytes: b, checkpoint: true, start: None },
                    });
                }
                4 => {
                    if rng.chance(0.3) {
                        ops.push(Op { id: ids.next(), kind: OpKind::Counts { inst: 0 } });
                    } else {
                        ops.push(Op { id: ids.next(), kind: OpKind::Count { inst: 0, topic: t } });
                    }
                }
                5 => {
                    // peek followed by its consuming twin, optionally bracketed by bookkeeping snapshots
                    let use_batch = rng.chance(0.6);
                    let snapshot = (tr.lens.clone(), tr.cursor);
                    let b = gen_budget(&mut rng, g, Some(&snapshot));
                    if o.snap_around_peeks {
                        ops.push(Op { id: ids.next(), kind: OpKind::ReclaimSnap {} });
                    }
                    if use_batch {
                        ops.push(Op {
                            id: ids.next(),
                            kind: OpKind::BatchRead { inst: 0, topic: t, max_bytes: b, checkpoint: false, start: None },
                        });
                    } else {
                        ops.push(Op { id: ids.next(), kind: OpKind::ReadNext { inst: 0, topic: t, checkpoint: false } });
                    }
                    if o.snap_around_peeks {
                        ops.push(Op { id: ids.next(), kind: OpKind::ReclaimSnap {} });
                    }
                    if rng.chance(0.3) {
                        ops.push(Op { id: ids.next(), kind: OpKind::Count { inst: 0, topic: t } });
                    }
                    if use_batch {
                        ops.push(Op {
                            id: ids.next(),
                            kind: OpKind::BatchRead { inst: 0, topic: t, max_bytes: b, checkpoint: true, start: None },
                        });
                    } else {
                        ops.push(Op { id: ids.next(), kind: OpKind::ReadNext { inst: 0, topic: t, checkpoint: true } });
                    }
                    tr.cursor = tr.lens.len().min(tr.cursor + 1);
                }
                6 => {
                    // offset-addressed read
                    let total: u64 = tr.lens.iter().map(|l| l + 256).sum();
                    let off = match rng.below(8) {
                        0 => 0,
                        1 => total,
                        2 => total + rng.range(1, 1000),
                        3 => {
                            // an entry boundary +-1
                            let k = rng.below(tr.lens.len().max(1) as u64) as usize;
                            let b: u64 = tr.lens.iter().take(k).map(|l| l + 256).sum();
                            (b + rng.range(0, 2)).saturating_sub(1)
                        }
                        4 => {
                            // mid payload
                            let k = rng.below(tr.lens.len().max(1) as u64) as usize;
                            let b: u64 = tr.lens.iter().take(k).map(|l| l + 256).sum();
                            b + 256 + tr.lens.get(k).copied().unwrap_or(0) / 2
                        }
                        5 => g.block * rng.range(0, 3),
                        _ => rng.range(0, total.max(1)),
                    };
                    let b = gen_budget(&mut rng, g, None);
                    let cp = rng.chance(0.5);
                    if o.snap_around_peeks {
                        ops.push(Op { id: ids.next(), kind: OpKind::ReclaimSnap {} });
                    }
                    ops.push(Op {
                        id: ids.next(),
                        kind: OpKind::BatchRead { inst: 0, topic: t, max_bytes: b, checkpoint: cp, start: Some(off) },
                    });
                    if o.snap_around_peeks {
                        ops.push(Op { id: ids.next(), kind: OpKind::ReclaimSnap {} });
                    }
                    if rng.chance(0.5) {
                        ops.push(Op { id: ids.next(), kind: OpKind::Count { inst: 0, topic: t } });
                    }
                }
                7 => {
                    let kind = match rng.below(3) {
                        0 => OpKind::MarkClean { inst: 0, topic: t },
                        1 => OpKind::MarkDirty { inst: 0, topic: t },
                        _ => OpKind::IsClean { inst: 0, topic: t },
                    };
                    ops.push(Op { id: ids.next(), kind });
                }
                8 => {
                    ops.push(gen_reject(&mut rng, g, &mut ids, t, &mut topics));
                }
                _ => {
                    ops.push(Op { id: ids.next(), kind: OpKind::Sleep { ms: *rng.pick(&[1u64, 3, 10, 1100]) } });
                }
            }
            if o.count_after_every_op {
                ops.push(Op { id: ids.next(), kind: OpKind::Count { inst: 0, topic: t } });
            }
            if o.p_same_process_restart > 0.0 && rng.chance(o.p_same_process_restart) {
                ops.push(Op { id: ids.next(), kind: OpKind::Close { inst: 0 } });
                ops.push(open_op(&mut ids));
            }
        }
        let last = inc_i + 1 == n_inc;
        if last && o.final_drain {
            for t in 0..n_topics as u32 {
                let mode = rng.pick(&["next", "mix", "batch"]).to_string();
                let owed = tracks[t as usize].lens.len() as u32;
                ops.push(Op { id: ids.next(), kind: OpKind::Drain { inst: 0, topic: t, mode, max: owed * 2 + 20 } });
                ops.push(Op { id: ids.next(), kind: OpKind::Count { inst: 0, topic: t } });
                if o.w[7] > 0 {
                    ops.push(Op { id: ids.next(), kind: OpKind::IsClean { inst: 0, topic: t } });
                }
            }
        } else if !last || o.w[7] > 0 {
            ops.push(Op { id: ids.next(), kind: OpKind::Close { inst: 0 } });
        }
        let sched = if o.prio_sched { SchedCfg::prio() } else { gen_sched(&mut rng, 1) };
        incarnations.push(Incarnation {
            sched,
            clock_start_ms: clock_ms,
            clock_delta_ms: if inc_i == 0 { None } else { Some(clock_delta) },
            backend: backend.clone(),
            phases: vec![Phase { threads: vec![ops] }],
            faults: vec![],
            // legal-but-unusual behaviour, per incarnation, from its own PRNG stream (the plan itself is unchanged):
            // io_uring cannot be set up (seccomp, sysctl, descriptor limit), the documented fallback to positional
            // writes must take over
            buggify: if Rng::new(mix(mix(seed, 0xB066), inc_i as u64)).chance(0.12) { vec!["uring_init_fail".to_string()] } else { vec![] },
            trace_io: false,
        });
        clock_delta = if o.clock_jumps {
            *rng.pick(&[1i64, 3_600_000, 0, -1, -3_600_000, -31_536_000_000, 50, 86_400_000, -40, -2_000])
        } else {
            rng.range(1, 5_000) as i64
        };
    }
    Plan {
        v: 1,
        property: o.property.into(),
        profile: o.profile.into(),
        seed,
        geometry: geometry.into(),
        topics,
        incarnations,
    }
}

/// One operation that the engine must reject (C04 `reject`, also interleaved in C06/C15 histories).
pub fn gen_reject(rng: &mut Rng, g: Geom, ids: &mut IdGen, t: u32, topics: &mut Vec<String>) -> Op {
    match rng.below(6) {
        0 => Op { id: ids.next(), kind: OpKind::BatchAlias { inst: 0, topic: t, n: 2001 + rng.below(50), each: rng.range(0, 30) } },
        1 => {
            // total bytes over the batch cap: n slices aliasing one buffer
            let each = if g.block > 1024 * 1024 { 6 * 1024 * 1024 } else { g.block / 2 };
            let n = (g.max_batch_bytes / (each + 256) + 1 + rng.below(3)).min(2000);
            assert!(n * (each + 256) > g.max_batch_bytes);
            Op { id: ids.next(), kind: OpKind::BatchAlias { inst: 0, topic: t, n, each } }
        }
        2 => Op { id: ids.next(), kind: OpKind::Append { inst: 0, topic: t, len: g.max_alloc - 255 + rng.below(64) } },
        3 => {
            // topic name too long for the entry header
            let name = format!("{}{}", "x".repeat(230 + rng.below(60) as usize), topics.len());
            topics.push(name);
            let tt = (topics.len() - 1) as u32;
            if rng.chance(0.5) {
                Op { id: ids.next(), kind: OpKind::Append { inst: 0, topic: tt, len: rng.range(0, 100) } }
            } else {
                Op { id: ids.next(), kind: OpKind::BatchAppend { inst: 0, topic: tt, lens: vec![rng.range(0, 100), rng.range(24, 100)] } }
            }
        }
        4 => Op { id: ids.next(), kind: OpKind::BatchAppend { inst: 0, topic: t, lens: vec![] } },
        _ => {
            // a batch with one oversized entry among normal ones
            let lens = vec![rng.range(24, 200), g.max_alloc + rng.range(1, 100), rng.range(24, 200)];
            Op { id: ids.next(), kind: OpKind::BatchAppend { inst: 0, topic: t, lens } }
        }
    }
}


/// C12: fill and consume whole files with the reclaimer running at its fastest schedule.
pub fn gen_reclaim(seed: u64, property: &str) -> Plan {
    let mut rng = Rng::new(mix(seed, 0xC12));
    let g = SMALL;
    let n_topics = rng.range(1, 4) as usize;
    let mut pool: Vec<&str> = TOPIC_POOL[..5].to_vec();
    let mut topics = Vec::new();
    for _ in 0..n_topics {
        let i = rng.below(pool.len() as u64) as usize;
        topics.push(pool.remove(i).to_string());
    }
    let alo = if rng.chance(0.25) { rng.range(1, 4) as u32 } else { 0 };
    let backend = rng.pick(&["fd", "fd", "mmap"]).to_string();
    let fsync = "ms:1".to_string();
    let n_inc = rng.range(1, 3) as usize;
    let mut ids = IdGen(0);
    let mut incarnations = Vec::new();
    let clock_ms: u64 = 1_700_000_000_000 + rng.below(1_000_000);
    let mut outstanding: Vec<usize> = vec![0; n_topics];
    let open_op = |ids: &mut IdGen| Op { id: ids.next(), kind: OpKind::Open { inst: 0, key: Some("k".into()), dir: "d".into(), alo, fsync: fsync.clone(), via_env: false } };
    // lazy consumers leave data behind; eager ones drain often
    let eager = rng.chance(0.6);
    let cap_mode = rng.chance(0.3);
    // at most two of the 1050-1500-entry batches per plan (together more than the 2000-entry cap of one batch read): a plan with dozens of them spends a minute of wall
    // clock in the final read_next drain (four index I/O events per entry) and adds nothing
    let mut cap_left = 2u32;
    for inc_i in 0..n_inc {
        let mut ops = vec![open_op(&mut ids)];
        let rounds = rng.range(3, 9);
        for _ in 0..rounds {
            // produce a burst that allocates several blocks
            let burst = rng.range(4, 14);
            for _ in 0..burst {
                let t = rng.below(n_topics as u64) as u32;
                if cap_mode && rng.chance(0.2) && cap_left > 0 {
                    cap_left -= 1;
                    // more pending entries than one batch read may return (2000): the read stops
                    // inside a block although its budget covered all of them
                    let n = rng.range(1050, 1500);
                    let lens: Vec<u64> = (0..n).map(|_| rng.range(24, 40)).collect();
                    outstanding[t as usize] += lens.len();
                    ops.push(Op { id: ids.next(), kind: OpKind::BatchAppend { inst: 0, topic: t, lens } });
                    if rng.chance(0.5) {
                        ops.push(Op { id: ids.next(), kind: OpKind::BatchRead { inst: 0, topic: t, max_bytes: u64::MAX - rng.below(3), checkpoint: true, start: None } });
                    }
                    continue;
                }
                if rng.chance(0.25) {
                    let n = rng.range(2, 5);
                    let lens: Vec<u64> = (0..n).map(|_| rng.range(g.block / 6, g.block / 2)).collect();
                    outstanding[t as usize] += lens.len();
                    ops.push(Op { id: ids.next(), kind: OpKind::BatchAppend { inst: 0, topic: t, lens } });
                } else {
                    let len = match rng.below(6) {
                        0 => rng.range(24, 300),
                        1 => g.block - 256 - rng.below(3),
                        2 => g.block + g.block / 3,
                        _ => rng.range(g.block / 4, g.block / 2),
                    };
                    outstanding[t as usize] += 1;
                    ops.push(Op { id: ids.next(), kind: OpKind::Append { inst: 0, topic: t, len } });
                }
            }
            // consume (fully, partly, or not at all), with peeks and empty polls mixed in
            for t in 0..n_topics as u32 {
                let mode = if eager { rng.below(4) } else { rng.below(7) };
                match mode {
                    0 | 1 => {
                        ops.push(Op { id: ids.next(), kind: OpKind::Drain { inst: 0, topic: t, mode: rng.pick(&["next", "mix", "batch"]).to_string(), max: 30_000 } });
                        outstanding[t as usize] = 0;
                        for _ in 0..rng.below(4) {
                            // repeated empty polls at an exact block end
                            if rng.chance(0.5) {
                                ops.push(Op { id: ids.next(), kind: OpKind::ReadNext { inst: 0, topic: t, checkpoint: rng.chance(0.5) } });
                            } else {
                                ops.push(Op { id: ids.next(), kind: OpKind::BatchRead { inst: 0, topic: t, max_bytes: 1000, checkpoint: rng.chance(0.5), start: None } });
                            }
                        }
                    }
                    2 => {
                        for _ in 0..rng.range(1, 6) {
                            ops.push(Op { id: ids.next(), kind: OpKind::ReadNext { inst: 0, topic: t, checkpoint: true } });
                        }
                    }
                    3 => {
                        let mb = if cap_mode && rng.chance(0.5) { u64::MAX } else { rng.range(g.block / 2, 3 * g.block) };
                        ops.push(Op { id: ids.next(), kind: OpKind::BatchRead { inst: 0, topic: t, max_bytes: mb, checkpoint: true, start: None } });
                        for _ in 0..rng.below(3) {
                            ops.push(Op { id: ids.next(), kind: OpKind::ReadNext { inst: 0, topic: t, checkpoint: false } });
                        }
                    }
                    _ => {
                        // peeks only
                        for _ in 0..rng.range(1, 4) {
                            ops.push(Op { id: ids.next(), kind: OpKind::BatchRead { inst: 0, topic: t, max_bytes: g.block, checkpoint: false, start: None } });
                        }
                    }
                }
            }
            if rng.chance(0.6) {
                // let the reclaimer complete a cleanup cycle (1000 ticks of 1 ms)
                ops.push(Op { id: ids.next(), kind: OpKind::Sleep { ms: *rng.pick(&[1050u64, 1200, 2100]) } });
                ops.push(Op { id: ids.next(), kind: OpKind::ListDir { dir: "d/k".into() } });
            }
            if rng.chance(0.08) {
                ops.push(Op { id: ids.next(), kind: OpKind::Close { inst: 0 } });
                ops.push(open_op(&mut ids));
            }
        }
        let last = inc_i + 1 == n_inc;
        if last {
            for t in 0..n_topics as u32 {
                ops.push(Op { id: ids.next(), kind: OpKind::Drain { inst: 0, topic: t, mode: "next".into(), max: 60_000 } });
            }
            ops.push(Op { id: ids.next(), kind: OpKind::Sleep { ms: 1100 } });
            ops.push(Op { id: ids.next(), kind: OpKind::ListDir { dir: "d/k".into() } });
        } else {
            ops.push(Op { id: ids.next(), kind: OpKind::Close { inst: 0 } });
        }
        let mut sched = gen_sched(&mut rng, 1);
        // the reclaimer needs simulated time: favour schedules in which timers fire
        sched.ns_per_step = *rng.pick(&[20_000u64, 50_000, 500_000]);
        incarnations.push(Incarnation {
            sched,
            clock_start_ms: clock_ms,
            clock_delta_ms: if inc_i == 0 { None } else { Some(rng.range(1, 5000) as i64) },
            backend: backend.clone(),
            phases: vec![Phase { threads: vec![ops] }],
            faults: vec![],
            buggify: vec![],
            trace_io: false,
        });
    }
    Plan { v: 1, property: property.into(), profile: "reclaim".into(), seed, geometry: "small".into(), topics, incarnations }
}
