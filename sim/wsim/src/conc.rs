//! Concurrency scenario (C05, and C04's "no reader observes part of a batch"):
//! 2-4 client threads mixing appends, batches and consuming reads on shared topics
//! under the seeded scheduler; afterwards the physical log order is obtained by an
//! independent pass (fresh process, cursor index removed, full drain).
use crate::gen::*;
use crate::oracle::{index_ops, Finding, Sig};
use crate::plan::*;
use crate::props::*;
use crate::rng::{mix, Rng};
use crate::runner::*;
use std::collections::{BTreeMap, BTreeSet};

pub struct ConcScenario {
    pub id: &'static str,
}

pub fn gen_conc(seed: u64, property: &str) -> Plan {
    let mut rng = Rng::new(mix(seed, 0xC05C));
    let g = SMALL;
    let n_topics = rng.range(1, 2) as usize;
    let mut pool: Vec<&str> = TOPIC_POOL[..5].to_vec();
    let mut topics = Vec::new();
    for _ in 0..n_topics {
        let i = rng.below(pool.len() as u64) as usize;
        topics.push(pool.remove(i).to_string());
    }
    let alo = if rng.chance(0.35) { rng.range(1, 8) as u32 } else { 0 };
    let fsync = rng.pick(&["ms:1", "ms:200", "each", "none"]).to_string();
    let backend = rng.pick(&["fd", "fd", "mmap"]).to_string();
    let n_threads = rng.range(2, 4) as usize;
    let mut ids = IdGen(0);
    let open = Op { id: ids.next(), kind: OpKind::Open { inst: 0, key: Some("k".into()), dir: "d".into(), alo, fsync: fsync.clone(), via_env: false } };
    // some entries already present (and partly consumed) before the threads start
    let mut pre = vec![open];
    for _ in 0..rng.below(4) {
        let t = rng.below(n_topics as u64) as u32;
        let n = rng.range(1, 6);
        let lens: Vec<u64> = (0..n).map(|_| rng.range(24, 3000)).collect();
        pre.push(Op { id: ids.next(), kind: OpKind::BatchAppend { inst: 0, topic: t, lens } });
    }
    // roles: producer-heavy, consumer-heavy or mixed per thread
    let big = rng.chance(0.5);
    let mut threads = Vec::new();
    for _ in 0..n_threads {
        let role = rng.below(3);
        let n_ops = rng.range(5, 40);
        let mut ops = Vec::new();
        for _ in 0..n_ops {
            let t = rng.below(n_topics as u64) as u32;
            let produce = match role {
                0 => rng.chance(0.85),
                1 => rng.chance(0.15),
                _ => rng.chance(0.5),
            };
            let len = |rng: &mut Rng| -> u64 {
                if big && rng.chance(0.25) {
                    rng.range(g.block / 8, g.block / 3)
                } else {
                    rng.range(24, 2500)
                }
            };
            let kind = if produce {
                if rng.chance(0.35) {
                    let n = rng.range(1, 10);
                    OpKind::BatchAppend { inst: 0, topic: t, lens: (0..n).map(|_| len(&mut rng)).collect() }
                } else {
                    OpKind::Append { inst: 0, topic: t, len: len(&mut rng) }
                }
            } else if rng.chance(0.55) {
                OpKind::ReadNext { inst: 0, topic: t, checkpoint: true }
            } else {
                OpKind::BatchRead { inst: 0, topic: t, max_bytes: *rng.pick(&[1u64, 500, 4000, 30_000, 200_000, u64::MAX]), checkpoint: true, start: None }
            };
            ops.push(Op { id: ids.next(), kind });
        }
        threads.push(ops);
    }
    let mut post = Vec::new();
    for t in 0..n_topics as u32 {
        post.push(Op { id: ids.next(), kind: OpKind::Drain { inst: 0, topic: t, mode: rng.pick(&["next", "mix"]).to_string(), max: 4000 } });
    }
    post.push(Op { id: ids.next(), kind: OpKind::Close { inst: 0 } });
    let clock_ms: u64 = 1_700_000_000_000 + rng.below(1_000_000);
    let inc0 = Incarnation {
        sched: gen_sched(&mut rng, n_threads as u64),
        clock_start_ms: clock_ms,
        clock_delta_ms: None,
        backend: backend.clone(),
        phases: vec![Phase { threads: vec![pre] }, Phase { threads }, Phase { threads: vec![post] }],
        faults: vec![],
        buggify: vec![],
        trace_io: false,
    };
    // independent pass: forget every cursor, read the physical log
    let mut v = vec![
        Op { id: ids.next(), kind: OpKind::RemoveFile { path: "d/k/read_offset_idx_index.db".into() } },
        Op { id: ids.next(), kind: OpKind::Open { inst: 0, key: Some("k".into()), dir: "d".into(), alo: 0, fsync, via_env: false } },
    ];
    for t in 0..n_topics as u32 {
        v.push(Op { id: ids.next(), kind: OpKind::Drain { inst: 0, topic: t, mode: "next".into(), max: 8000 } });
    }
    let inc1 = Incarnation {
        sched: SchedCfg::prio(),
        clock_start_ms: clock_ms,
        clock_delta_ms: Some(1000),
        backend,
        phases: vec![Phase { threads: vec![v] }],
        faults: vec![],
        buggify: vec![],
        trace_io: false,
    };
    Plan { v: 1, property: property.into(), profile: "conc".into(), seed, geometry: "small".into(), topics, incarnations: vec![inc0, inc1] }
}

struct OpRec {
    inv: u64,
    ret: u64,
    th: u32,
    res: Res,
}

pub fn judge_conc(plan: &Plan, rr: &RunResult) -> (Vec<Finding>, BTreeMap<String, u64>) {
    let mut out = Vec::new();
    let mut stats: BTreeMap<String, u64> = BTreeMap::new();
    let ops = index_ops(plan);
    if rr.incs.len() != 2 {
        for (i, inc) in rr.incs.iter().enumerate() {
            if !matches!(inc.exit, Exit::Code(0)) {
                let rule = match inc.exit {
                    Exit::Code(78) => "any.deadlock",
                    Exit::Code(79) => "any.nonterm",
                    _ => "harness.exit",
                };
                let msg = inc.events.iter().rev().find(|e| e.t == "deadlock" || e.t == "nonterm" || e.t == "panic").and_then(|e| e.msg.clone()).unwrap_or_default();
                out.push(Finding::new(rule, i, 0, format!("incarnation {} ended with {:?}: {} {}", i, inc.exit, msg, inc.stderr.chars().take(200).collect::<String>())));
            }
        }
        return (out, stats);
    }
    for (i, inc) in rr.incs.iter().enumerate() {
        if !matches!(inc.exit, Exit::Code(0)) {
            let rule = match inc.exit {
                Exit::Code(78) => "any.deadlock",
                Exit::Code(79) => "any.nonterm",
                _ => "harness.exit",
            };
            let msg = inc.events.iter().rev().find(|e| e.t == "deadlock" || e.t == "nonterm" || e.t == "panic").and_then(|e| e.msg.clone()).unwrap_or_default();
            out.push(Finding::new(rule, i, 0, format!("incarnation {} ended with {:?}: {}", i, inc.exit, msg)));
            return (out, stats);
        }
    }
    // ---- collect op records of incarnation 0 ----
    let mut recs: BTreeMap<u32, OpRec> = BTreeMap::new();
    let mut invs: BTreeMap<u32, (u64, u32)> = BTreeMap::new();
    for e in &rr.incs[0].events {
        if let Some(id) = e.op {
            if e.t == "inv" {
                invs.insert(id, (e.step, e.th));
            } else if e.t == "ret" {
                if let (Some((inv, th)), Some(res)) = (invs.get(&id), e.res.clone()) {
                    recs.insert(id, OpRec { inv: *inv, ret: e.step, th: *th, res });
                }
            }
        }
    }
    // overlap probe: did two client operations actually overlap?
    {
        let mut spans: Vec<(u64, u64, u32)> = recs.iter().filter(|(id, _)| ops.get(id).map(|o| o.kind.topic().is_some()).unwrap_or(false)).map(|(_, r)| (r.inv, r.ret, r.th)).collect();
        spans.sort();
        let mut overlaps = 0;
        for w in spans.windows(2) {
            if w[1].0 < w[0].1 && w[0].2 != w[1].2 {
                overlaps += 1;
            }
        }
        stats.insert("overlapping_op_pairs".into(), overlaps);
    }
    // ---- physical log order from the independent pass ----
    let mut phys: BTreeMap<u32, Vec<Sig>> = BTreeMap::new();
    for e in &rr.incs[1].events {
        if e.t == "ret" {
            if let (Some(id), Some(res)) = (e.op, e.res.as_ref()) {
                if let Some(Op { kind: OpKind::Drain { topic, .. }, .. }) = ops.get(&id).copied() {
                    if res.k != "ok" {
                        out.push(Finding::new("c05.physical_read_failed", 1, id, format!("reading the physical log failed: {:?} {:?}", res.err_kind, res.msg)));
                        return (out, stats);
                    }
                    phys.insert(*topic, res.entries.clone());
                }
                if let Some(Op { kind: OpKind::Open { .. }, .. }) = ops.get(&id).copied() {
                    if res.k != "ok" {
                        out.push(Finding::new("c05.physical_read_failed", 1, id, format!("reopen failed: {:?} {:?}", res.err_kind, res.msg)));
                        return (out, stats);
                    }
                }
            }
        }
    }
    let n_topics = plan.topics.len() as u32;
    for topic in 0..n_topics {
        let l = phys.get(&topic).cloned().unwrap_or_default();
        // position of each origin in L
        let mut pos: BTreeMap<u64, usize> = BTreeMap::new();
        let mut dup_in_l = None;
        for (i, s) in l.iter().enumerate() {
            if s.2 == 0 {
                continue;
            }
            if pos.insert(s.2, i).is_some() {
                dup_in_l = Some(s.2);
            }
        }
        if let Some(d) = dup_in_l {
            out.push(Finding::new("c05.duplicate_in_log", 1, 0, format!("entry seq={:x} is stored twice in the log of topic {}", d, topic)));
            continue;
        }
        // (a) every successful append exactly once in L, failed ones absent; (b) producer order; (c) batch contiguity
        let mut appended: BTreeSet<u64> = BTreeSet::new();
        let mut per_thread_last: BTreeMap<u32, (usize, u32)> = BTreeMap::new();
        let mut bad = false;
        for (id, r) in recs.iter() {
            let Some(op) = ops.get(id) else { continue };
            let (t, lens): (u32, Vec<u64>) = match &op.kind {
                OpKind::Append { topic: t, len, .. } => (*t, vec![*len]),
                OpKind::BatchAppend { topic: t, lens, .. } => (*t, lens.clone()),
                _ => continue,
            };
            if t != topic {
                continue;
            }
            let origins: Vec<u64> = (0..lens.len()).map(|k| seq_of(*id, k as u32)).collect();
            if r.res.k == "ok" {
                let mut ps = Vec::new();
                for (k, o) in origins.iter().enumerate() {
                    appended.insert(*o);
                    match pos.get(o) {
                        Some(p) => {
                            let e = expected_sig(plan.seed, topic, *id, k as u32, lens[k]);
                            if l[*p].0 != e.0 || l[*p].1 != e.1 {
                                out.push(Finding::new("c05.corrupt", 1, *id, format!("stored bytes of op {} idx {} differ from what was appended", id, k)));
                                bad = true;
                            }
                            ps.push(*p);
                        }
                        None => {
                            out.push(
                                Finding::new("c05.append_missing_in_log", 1, *id, format!("successful append op {} idx {} (thread {}) is not in the topic's log", id, k, r.th))
                                    .fact("batch", serde_json::json!(lens.len() > 1)),
                            );
                            bad = true;
                        }
                    }
                }
                if bad {
                    break;
                }
                if ps.windows(2).any(|w| w[1] != w[0] + 1) {
                    out.push(Finding::new("c05.batch_not_contiguous", 1, *id, format!("batch op {} occupies log positions {:?}", id, &ps[..ps.len().min(10)])));
                    bad = true;
                    break;
                }
                // program order per producer thread (ops are iterated in id order = program order within a thread)
                if let Some((last, lid)) = per_thread_last.get(&r.th) {
                    if ps[0] < *last {
                        out.push(Finding::new("c05.producer_order", 1, *id, format!("thread {} appended op {} before op {} but it is stored after it", r.th, lid, id)));
                        bad = true;
                        break;
                    }
                }
                per_thread_last.insert(r.th, (*ps.last().unwrap(), *id));
            } else if r.res.k == "err" {
                if origins.iter().any(|o| pos.contains_key(o)) {
                    out.push(
                        Finding::new("c04.failed_append_visible", 1, *id, format!("append op {} returned {:?} but its entries are in the log", id, r.res.err_kind))
                            .fact("err_kind", serde_json::json!(r.res.err_kind)),
                    );
                    bad = true;
                    break;
                }
                *stats.entry("append_errors".into()).or_insert(0) += 1;
            } else {
                out.push(Finding::new("c05.append_panic", 0, *id, format!("append panicked: {:?}", r.res.msg)));
                bad = true;
                break;
            }
        }
        if bad {
            continue;
        }
        for s in l.iter() {
            if s.2 == 0 || !appended.contains(&s.2) {
                out.push(Finding::new("c05.foreign_in_log", 1, 0, format!("the log of topic {} holds an entry (len={} seq={:x}) that no successful append wrote", topic, s.0, s.2)));
                bad = true;
                break;
            }
        }
        if bad {
            continue;
        }
        // ---- consumers ----
        let mut returned_by: BTreeMap<u64, u32> = BTreeMap::new();
        let mut reads: Vec<(u32, &OpRec, Vec<usize>)> = Vec::new(); // (op id, rec, positions)
        for (id, r) in recs.iter() {
            let Some(op) = ops.get(id) else { continue };
            let is_read = matches!(&op.kind, OpKind::ReadNext { topic: t, checkpoint: true, .. } | OpKind::BatchRead { topic: t, checkpoint: true, start: None, .. } | OpKind::Drain { topic: t, .. } if *t == topic);
            if !is_read {
                continue;
            }
            if r.res.k != "ok" {
                out.push(Finding::new("c05.read_failed", 0, *id, format!("consuming read op {} returned {} {:?} {:?}", id, r.res.k, r.res.err_kind, r.res.msg)).fact("msg", serde_json::json!(r.res.msg)));
                bad = true;
                break;
            }
            let mut ps = Vec::new();
            for e in r.res.entries.iter() {
                match pos.get(&e.2).copied().filter(|p| l[*p].0 == e.0 && l[*p].1 == e.1) {
                    Some(p) => {
                        if let Some(prev) = returned_by.insert(e.2, *id) {
                            out.push(
                                Finding::new("c05.delivered_twice", 0, *id, format!("entry seq={:x} (log position {}) was returned by consuming read op {} and again by op {}", e.2, p, prev, id))
                                    .fact("same_thread", serde_json::json!(recs.get(&prev).map(|x| x.th) == Some(r.th)))
                                    .fact("api", serde_json::json!(crate::oracle::api_name(&op.kind))),
                            );
                            bad = true;
                        }
                        ps.push(p);
                    }
                    None => {
                        out.push(Finding::new("c05.foreign_delivered", 0, *id, format!("read op {} returned an entry (len={} seq={:x}) that is not in the topic's log", id, e.0, e.2)));
                        bad = true;
                    }
                }
                if bad {
                    break;
                }
            }
            if bad {
                break;
            }
            if ps.windows(2).any(|w| w[1] <= w[0]) {
                out.push(Finding::new("c05.read_order", 0, *id, format!("read op {} returned entries out of log order: positions {:?}", id, &ps[..ps.len().min(10)])));
                bad = true;
                break;
            }
            reads.push((*id, r, ps));
        }
        if bad {
            continue;
        }
        // per consumer thread: increasing; across threads: real-time order
        let mut sorted: Vec<&(u32, &OpRec, Vec<usize>)> = reads.iter().filter(|x| !x.2.is_empty()).collect();
        sorted.sort_by_key(|x| x.1.inv);
        'rt: for i in 0..sorted.len() {
            for j in 0..sorted.len() {
                if i == j {
                    continue;
                }
                let (a, b) = (sorted[i], sorted[j]);
                // a returned before b was invoked => everything of a precedes everything of b
                if a.1.ret < b.1.inv && a.2.last().unwrap() > b.2.first().unwrap() {
                    out.push(
                        Finding::new(
                            "c05.consumer_order",
                            0,
                            b.0,
                            format!("read op {} (thread {}) returned log positions {:?} although read op {} (thread {}), which had returned earlier, already delivered position {}", b.0, b.1.th, &b.2[..b.2.len().min(6)], a.0, a.1.th, a.2.last().unwrap()),
                        )
                        .fact("same_thread", serde_json::json!(a.1.th == b.1.th)),
                    );
                    bad = true;
                    break 'rt;
                }
            }
        }
        if bad {
            continue;
        }
        // (f) everything delivered exactly once by the end of the drain
        let missing: Vec<usize> = (0..l.len()).filter(|p| !returned_by.contains_key(&l[*p].2)).collect();
        if !missing.is_empty() {
            out.push(
                Finding::new(
                    "c05.never_delivered",
                    0,
                    0,
                    format!("{} entries of topic {} were never returned by any consuming read although the final drain reported empty (first at log position {} of {})", missing.len(), topic, missing[0], l.len()),
                )
                .fact("missing", serde_json::json!(missing.len())),
            );
            continue;
        }
        // ---- C04: a reader never observes only part of a batch ----
        // once any entry of a batch was delivered, a consuming read that comes back empty while other
        // entries of that batch are still undelivered has observed a partial batch
        let batch_of = |origin: u64| -> Option<u32> {
            let opid = (origin >> 20) as u32;
            match ops.get(&opid).map(|o| &o.kind) {
                Some(OpKind::BatchAppend { lens, .. }) if lens.len() > 1 => Some(opid),
                _ => None,
            }
        };
        // delivery time (ret step of the read that returned it) per origin
        let mut delivered_at: BTreeMap<u64, (u64, u64)> = BTreeMap::new(); // origin -> (inv, ret) of the read
        for (_, r, ps) in reads.iter() {
            for p in ps {
                delivered_at.insert(l[*p].2, (r.inv, r.ret));
            }
        }
        for (id, r) in recs.iter() {
            let Some(op) = ops.get(id) else { continue };
            let is_empty_read = match &op.kind {
                OpKind::ReadNext { topic: t, checkpoint: true, .. } if *t == topic => r.res.k == "ok" && r.res.entries.is_empty(),
                _ => false,
            };
            if !is_empty_read {
                continue;
            }
            // batches with an entry delivered (read returned) before this read was invoked ...
            let mut started: BTreeSet<u32> = BTreeSet::new();
            for (o, (_, ret)) in delivered_at.iter() {
                if *ret < r.inv {
                    if let Some(b) = batch_of(*o) {
                        started.insert(b);
                    }
                }
            }
            // ... and an entry whose delivering read was invoked only after this read returned
            for (o, (inv, _)) in delivered_at.iter() {
                if *inv > r.ret {
                    if let Some(b) = batch_of(*o) {
                        if started.contains(&b) {
                            out.push(Finding::new(
                                "c04.partial_batch_visible",
                                0,
                                *id,
                                format!("read_next op {} came back empty although part of batch op {} had already been delivered and the rest (e.g. seq={:x}) was delivered only later", id, b, o),
                            ));
                            bad = true;
                            break;
                        }
                    }
                }
            }
            if bad {
                break;
            }
        }
    }
    (out, stats)
}

impl ConcScenario {
    fn owns(&self, rule: &str) -> bool {
        match self.id {
            "C05" => rule.starts_with("c05.") || rule.starts_with("any."),
            _ => rule.starts_with("c04."),
        }
    }
}

impl Scenario for ConcScenario {
    fn id(&self) -> &'static str {
        self.id
    }
    fn rule_text(&self) -> String {
        "2-4 client threads x 5-40 operations (append, batch_append, read_next, batch_read with budgets) on 1-2 shared topics, scaled geometry so blocks rotate every few operations, StrictlyAtOnce and AtLeastOnce, both backends; every lock acquisition, atomic access, channel operation and mutating I/O event is a scheduling point decided by a seeded random-walk / sticky / PCT scheduler; afterwards a fresh process with the cursor index removed reads the physical log L; oracle: each successful append exactly once in L, producer program order, batches contiguous, each consuming read strictly increasing in L, no entry delivered twice, real-time order between reads (simulator step numbers), everything delivered by the final drain; distinct = (plan, schedule hash); non-trivial = at least two client operations overlapped".into()
    }
    fn plan_for(&self, seed_r: u64) -> Option<Plan> {
        Some(gen_conc(seed_r, self.id))
    }
    fn run_one(&self, seed_r: u64, env: &Env) -> Outcome {
        let plan = gen_conc(seed_r, self.id);
        let rr = run_plan(&env.bins, &plan, &RunOpts::default());
        let mut out = Outcome::default();
        out.executions = rr.incs.len() as u64;
        out.digest = history_hash(&rr);
        absorb_summary(&mut out, &rr);
        out.stat("sim_clock_ms", sim_clock_ms(&rr, &plan));
        out.stat(&format!("backend.{}", plan.incarnations[0].backend), 1);
        out.stat(&format!("policy.{}", plan.incarnations[0].sched.policy), 1);
        let (fs, stats) = judge_conc(&plan, &rr);
        for (k, v) in stats.iter() {
            out.stat(&format!("reach.{}", k), *v);
        }
        if stats.get("overlapping_op_pairs").copied().unwrap_or(0) > 0 {
            out.keys.push(plan_shape_key(&plan, &rr));
        }
        for f in fs {
            if self.owns(&f.rule) {
                out.findings.push((plan.clone(), f));
            } else if f.rule.starts_with("harness.") {
                out.harness_errors.push(f.detail.clone());
            } else {
                out.stat(&format!("other_rule.{}", f.rule), 1);
            }
        }
        out.sample = Some(render_sample(&plan));
        out
    }
    fn judge_plan(&self, plan: &Plan, env: &Env) -> (Vec<Finding>, u64) {
        let rr = run_plan(&env.bins, plan, &RunOpts::default());
        let (fs, _) = judge_conc(plan, &rr);
        (fs.into_iter().filter(|f| self.owns(&f.rule)).collect(), history_hash(&rr))
    }
}

// ---------------------------------------------------------------------------
// C15 under concurrency: the reported count at the quiescent points of a concurrent history
// ---------------------------------------------------------------------------

/// C05's workload with `get_topic_entry_count` asked at every quiescent point: after the single-threaded prologue,
/// after all client threads have been joined (before anything is drained), and after each drain.
pub fn gen_conc_counts(seed: u64) -> Plan {
    let mut plan = gen_conc(seed, "C15");
    plan.profile = "conc-counts".into();
    let mut next = plan.incarnations.iter().flat_map(|i| i.phases.iter()).flat_map(|p| p.threads.iter()).flat_map(|t| t.iter()).map(|o| o.id).max().unwrap_or(0) + 1;
    let n_topics = plan.topics.len() as u32;
    let mut id = || {
        next += 1;
        next - 1
    };
    let inc0 = &mut plan.incarnations[0];
    for t in 0..n_topics {
        inc0.phases[0].threads[0].push(Op { id: id(), kind: OpKind::Count { inst: 0, topic: t } });
    }
    let post = std::mem::take(&mut inc0.phases[2].threads[0]);
    let mut v = Vec::new();
    for t in 0..n_topics {
        v.push(Op { id: id(), kind: OpKind::Count { inst: 0, topic: t } });
    }
    for o in post {
        let drained = if let OpKind::Drain { topic, .. } = &o.kind { Some(*topic) } else { None };
        v.push(o);
        if let Some(t) = drained {
            v.push(Op { id: id(), kind: OpKind::Count { inst: 0, topic: t } });
        }
    }
    inc0.phases[2].threads[0] = v;
    plan
}

/// expected count = entries of appends that returned success - entries returned by consuming reads (all of them
/// have returned at a quiescent point; the history file is in the simulator's total order)
pub fn judge_conc_counts(plan: &Plan, rr: &RunResult) -> (Vec<Finding>, BTreeMap<String, u64>) {
    let mut out = Vec::new();
    let mut stats: BTreeMap<String, u64> = BTreeMap::new();
    let ops = index_ops(plan);
    let Some(inc) = rr.incs.first() else { return (out, stats) };
    if !matches!(inc.exit, Exit::Code(0)) {
        let rule = match inc.exit {
            Exit::Code(78) => "any.deadlock",
            Exit::Code(79) => "any.nonterm",
            _ => "harness.exit",
        };
        out.push(Finding::new(rule, 0, 0, format!("incarnation 0 ended with {:?}", inc.exit)));
        return (out, stats);
    }
    let mut appended: BTreeMap<u32, u64> = BTreeMap::new();
    let mut returned: BTreeMap<u32, u64> = BTreeMap::new();
    let mut failed_appends = 0u64;
    for e in inc.events.iter().filter(|e| e.t == "ret") {
        let (Some(id), Some(res)) = (e.op, e.res.as_ref()) else { continue };
        let Some(op) = ops.get(&id) else { continue };
        match &op.kind {
            OpKind::Append { topic, .. } => {
                if res.k == "ok" {
                    *appended.entry(*topic).or_insert(0) += 1;
                } else {
                    failed_appends += 1;
                }
            }
            OpKind::BatchAppend { topic, lens, .. } => {
                if res.k == "ok" {
                    *appended.entry(*topic).or_insert(0) += lens.len() as u64;
                } else {
                    failed_appends += 1;
                }
            }
            OpKind::ReadNext { topic, checkpoint: true, .. } | OpKind::BatchRead { topic, checkpoint: true, start: None, .. } | OpKind::Drain { topic, .. } => {
                if res.k == "ok" {
                    *returned.entry(*topic).or_insert(0) += res.entries.len() as u64;
                }
            }
            OpKind::Count { topic, .. } => {
                let a = appended.get(topic).copied().unwrap_or(0);
                let r = returned.get(topic).copied().unwrap_or(0);
                let expect = a.saturating_sub(r);
                let got = res.val.unwrap_or(u64::MAX);
                *stats.entry("count_checked".into()).or_insert(0) += 1;
                if failed_appends > 0 {
                    *stats.entry("count_checked_after_failed_append".into()).or_insert(0) += 1;
                }
                if res.k == "ok" && got != expect {
                    out.push(
                        Finding::new("c15.count_concurrent", 0, id, format!("count={} at a quiescent point of a concurrent history, but appended_ok={} returned_by_consuming_reads={} (expected {})", got, a, r, expect))
                            .fact("got", serde_json::json!(got))
                            .fact("expected", serde_json::json!(expect))
                            .fact("failed_appends_before", serde_json::json!(failed_appends)),
                    );
                }
            }
            _ => {}
        }
    }
    (out, stats)
}

pub struct ConcCountsScenario;

impl Scenario for ConcCountsScenario {
    fn id(&self) -> &'static str {
        "C15"
    }
    fn rule_text(&self) -> String {
        String::new()
    }
    fn plan_for(&self, seed_r: u64) -> Option<Plan> {
        Some(gen_conc_counts(seed_r))
    }
    fn run_one(&self, seed_r: u64, env: &Env) -> Outcome {
        let plan = gen_conc_counts(seed_r);
        let rr = run_plan(&env.bins, &plan, &RunOpts::default());
        let mut out = Outcome::default();
        out.executions = rr.incs.len() as u64;
        out.digest = history_hash(&rr);
        absorb_summary(&mut out, &rr);
        out.stat("sim_clock_ms", sim_clock_ms(&rr, &plan));
        out.stat(&format!("backend.{}", plan.incarnations[0].backend), 1);
        out.stat(&format!("policy.{}", plan.incarnations[0].sched.policy), 1);
        let (fs, stats) = judge_conc_counts(&plan, &rr);
        for (k, v) in stats.iter() {
            out.stat(&format!("reach.conc.{}", k), *v);
        }
        if stats.get("count_checked").copied().unwrap_or(0) > 0 {
            out.keys.push(plan_shape_key(&plan, &rr));
        }
        for f in fs {
            if f.rule.starts_with("c15.") {
                out.findings.push((plan.clone(), f));
            } else if f.rule.starts_with("harness.") {
                out.harness_errors.push(f.detail.clone());
            } else {
                out.stat(&format!("other_rule.{}", f.rule), 1);
            }
        }
        out.sample = Some(render_sample(&plan));
        out
    }
    fn judge_plan(&self, plan: &Plan, env: &Env) -> (Vec<Finding>, u64) {
        let rr = run_plan(&env.bins, plan, &RunOpts::default());
        let (fs, _) = judge_conc_counts(plan, &rr);
        (fs.into_iter().filter(|f| f.rule.starts_with("c15.")).collect(), history_hash(&rr))
    }
}
