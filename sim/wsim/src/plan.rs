//! Plan (what a simulated run executes) and history (what it observed).
use serde::{Deserialize, Serialize};
use std::collections::BTreeMap;

#[derive(Serialize, Deserialize, Clone, Debug, PartialEq)]
pub struct Plan {
    pub v: u32,
    pub property: String,
    pub profile: String,
    pub seed: u64,
    /// "small" (64 KiB blocks, 8 per file) or "real" (10 MiB, 100 per file)
    pub geometry: String,
    pub topics: Vec<String>,
    pub incarnations: Vec<Incarnation>,
}

#[derive(Serialize, Deserialize, Clone, Debug, PartialEq)]
pub struct Incarnation {
    pub sched: SchedCfg,
    /// simulated wall clock (unix ms) at process start (first incarnation)
    pub clock_start_ms: u64,
    /// later incarnations: start = simulated clock at the end of the previous incarnation + delta
    /// (negative = the wall clock moved backwards between runs)
    #[serde(default)]
    pub clock_delta_ms: Option<i64>,
    /// "fd" or "mmap" (process-global in the engine)
    pub backend: String,
    pub phases: Vec<Phase>,
    #[serde(default)]
    pub faults: Vec<Fault>,
    #[serde(default)]
    pub buggify: Vec<String>,
    #[serde(default)]
    pub trace_io: bool,
}

#[derive(Serialize, Deserialize, Clone, Debug, PartialEq)]
pub struct SchedCfg {
    pub seed: u64,
    /// "random" | "sticky" | "pct" | "prio"
    pub policy: String,
    pub sticky_p: f64,
    pub pct_depth: u32,
    pub pct_span: u64,
    pub ns_per_step: u64,
    pub p_jump: f64,
    pub p_load_sched: f64,
    /// scheduler steps after which an incarnation is declared non-terminating (0 = 3 million)
    #[serde(default)]
    pub step_budget: u64,
}

impl SchedCfg {
    pub fn prio() -> Self {
        SchedCfg {
            seed: 0,
            policy: "prio".into(),
            sticky_p: 0.0,
            pct_depth: 0,
            pct_span: 0,
            ns_per_step: 0,
            p_jump: 0.0,
            p_load_sched: 0.0,
            step_budget: 0,
        }
    }
}

#[derive(Serialize, Deserialize, Clone, Debug, PartialEq)]
pub struct Phase {
    pub threads: Vec<Vec<Op>>,
}

#[derive(Serialize, Deserialize, Clone, Debug, PartialEq)]
pub struct Op {
    pub id: u32,
    #[serde(flatten)]
    pub kind: OpKind,
}

#[derive(Serialize, Deserialize, Clone, Debug, PartialEq)]
#[serde(tag = "op", rename_all = "snake_case")]
pub enum OpKind {
    Open {
        inst: u32,
        key: Option<String>,
        dir: String,
        /// 0 = StrictlyAtOnce, n>0 = AtLeastOnce{persist_every:n}
        alo: u32,
        /// "each" | "none" | "ms:<n>"
        fsync: String,
        /// true: the data directory is handed over through WALRUS_DATA_DIR and a *_for_key constructor
        /// (the documented alternative to the builder); false: WalrusBuilder::data_dir
        #[serde(default)]
        via_env: bool,
    },
    Close {
        inst: u32,
    },
    Append {
        inst: u32,
        topic: u32,
        len: u64,
    },
    BatchAppend {
        inst: u32,
        topic: u32,
        lens: Vec<u64>,
    },
    /// n slices aliasing one buffer of `each` bytes (rejection tests: huge totals cost nothing)
    BatchAlias {
        inst: u32,
        topic: u32,
        n: u64,
        each: u64,
    },
    ReadNext {
        inst: u32,
        topic: u32,
        checkpoint: bool,
    },
    BatchRead {
        inst: u32,
        topic: u32,
        max_bytes: u64,
        checkpoint: bool,
        start: Option<u64>,
    },
    /// consuming reads until empty (bounded by `max`); mode "next" | "batch" | "mix"
    Drain {
        inst: u32,
        topic: u32,
        mode: String,
        max: u32,
    },
    Count {
        inst: u32,
        topic: u32,
    },
    Counts {
        inst: u32,
    },
    MarkClean {
        inst: u32,
        topic: u32,
    },
    MarkDirty {
        inst: u32,
        topic: u32,
    },
    IsClean {
        inst: u32,
        topic: u32,
    },
    Sleep {
        ms: u64,
    },
    ReclaimSnap {},
    /// list the data directory of an instance (file names, sorted)
    ListDir {
        dir: String,
    },
    /// harness-side removal of a file (e.g. the cursor index, to read the physical log)
    RemoveFile {
        path: String,
    },
    /// harness-side damage to stored state (C11). target: "wal:<k>" (k-th WAL file, sorted),
    /// "index", "clean", "index_tmp", "clean_tmp", "new:<name>"; action: "flip" (bit `arg` of byte at `off`),
    /// "zero" (len bytes at off), "truncate" (to off), "garbage" (len pseudo-random bytes at off, extending the file),
    /// "create" (new file of len pseudo-random bytes), "mkdir"
    Mutate {
        dir: String,
        target: String,
        action: String,
        off: u64,
        len: u64,
        arg: u64,
    },
}

impl OpKind {
    pub fn inst(&self) -> Option<u32> {
        use OpKind::*;
        match self {
            Open { inst, .. }
            | Close { inst }
            | Append { inst, .. }
            | BatchAppend { inst, .. }
            | BatchAlias { inst, .. }
            | ReadNext { inst, .. }
            | BatchRead { inst, .. }
            | Drain { inst, .. }
            | Count { inst, .. }
            | Counts { inst }
            | MarkClean { inst, .. }
            | MarkDirty { inst, .. }
            | IsClean { inst, .. } => Some(*inst),
            _ => None,
        }
    }
    pub fn topic(&self) -> Option<u32> {
        use OpKind::*;
        match self {
            Append { topic, .. }
            | BatchAppend { topic, .. }
            | BatchAlias { topic, .. }
            | ReadNext { topic, .. }
            | BatchRead { topic, .. }
            | Drain { topic, .. }
            | Count { topic, .. }
            | MarkClean { topic, .. }
            | MarkDirty { topic, .. }
            | IsClean { topic, .. } => Some(*topic),
            _ => None,
        }
    }
}

#[derive(Serialize, Deserialize, Clone, Debug, PartialEq)]
pub struct Fault {
    pub sel: Sel,
    pub act: Act,
}

#[derive(Serialize, Deserialize, Clone, Debug, PartialEq)]
#[serde(rename_all = "snake_case")]
pub enum Sel {
    /// k-th mutating I/O event of the incarnation (1-based)
    AtIo(u64),
    /// nth mutating I/O event (1-based) performed by the thread executing client op `op`
    InOp { op: u32, nth: u32 },
}

#[derive(Serialize, Deserialize, Clone, Debug, PartialEq)]
#[serde(rename_all = "snake_case")]
pub enum Act {
    /// terminate the process before the event is performed
    Crash,
    /// store only the first `n` bytes, then terminate (Store events; other kinds: Crash)
    Torn { n: u64 },
    /// the operation is not performed and returns this errno
    Fail { errno: i32 },
    /// io_uring submission: perform the writes whose index bit is set, then terminate
    UringCrashSubset { keep: Vec<bool> },
    /// io_uring submission fails (nothing written)
    UringFailSubmit { errno: i32 },
    /// completion of batch entry `idx` reports `res` (negative errno or short count);
    /// for a short count the tail of the range is zeroed back
    UringCqe { idx: u64, res: i32 },
    /// slow thread: at this event the thread is not scheduled for `steps` scheduler steps (or
    /// until no other thread can run); further faults with the same selector apply afterwards
    Stall { steps: u64 },
}

// ---------------------------------------------------------------------------
// History
// ---------------------------------------------------------------------------

#[derive(Serialize, Deserialize, Clone, Debug, Default, PartialEq)]
pub struct Ev {
    /// "start" | "inv" | "ret" | "io" | "fault" | "crash" | "panic" | "end" | "deadlock" | "nonterm" | "probe"
    pub t: String,
    pub step: u64,
    pub th: u32,
    #[serde(default, skip_serializing_if = "Option::is_none")]
    pub op: Option<u32>,
    #[serde(default, skip_serializing_if = "Option::is_none")]
    pub res: Option<Res>,
    #[serde(default, skip_serializing_if = "Option::is_none")]
    pub io: Option<IoRec>,
    #[serde(default, skip_serializing_if = "Option::is_none")]
    pub msg: Option<String>,
}

#[derive(Serialize, Deserialize, Clone, Debug, Default, PartialEq)]
pub struct Res {
    /// "ok" | "err" | "panic"
    pub k: String,
    #[serde(default, skip_serializing_if = "Option::is_none")]
    pub err_kind: Option<String>,
    #[serde(default, skip_serializing_if = "Option::is_none")]
    pub msg: Option<String>,
    /// returned entries: (len, fnv64 of bytes, harness sequence id or 0)
    #[serde(default, skip_serializing_if = "Vec::is_empty")]
    pub entries: Vec<(u64, u64, u64)>,
    /// for reads: Some(true) when read_next returned None
    #[serde(default, skip_serializing_if = "Option::is_none")]
    pub none: Option<bool>,
    #[serde(default, skip_serializing_if = "Option::is_none")]
    pub val: Option<u64>,
    #[serde(default, skip_serializing_if = "Option::is_none")]
    pub flag: Option<bool>,
    #[serde(default, skip_serializing_if = "Option::is_none")]
    pub map: Option<BTreeMap<String, u64>>,
    #[serde(default, skip_serializing_if = "Option::is_none")]
    pub text: Option<String>,
    /// for Drain: number of read calls made and how each ended
    #[serde(default, skip_serializing_if = "Vec::is_empty")]
    pub calls: Vec<u32>,
    /// for Drain: simulator step at which each read call returned
    #[serde(default, skip_serializing_if = "Vec::is_empty")]
    pub call_steps: Vec<u64>,
}

#[derive(Serialize, Deserialize, Clone, Debug, Default, PartialEq)]
pub struct IoRec {
    pub n: u64,
    pub kind: String,
    pub path: String,
    #[serde(default, skip_serializing_if = "String::is_empty")]
    pub path2: String,
    pub off: u64,
    pub len: u64,
    #[serde(default, skip_serializing_if = "Option::is_none")]
    pub hash: Option<u64>,
    #[serde(default, skip_serializing_if = "is_false")]
    pub mmap: bool,
}

fn is_false(b: &bool) -> bool {
    !*b
}

// ---------------------------------------------------------------------------
// Payloads: generated from (op id, index) so parent and child agree without
// shipping bytes. Payloads of >= HDR bytes carry a self-describing header.
// ---------------------------------------------------------------------------
pub const HDR: usize = 24;
pub const MAGIC: u32 = 0x5753_494D; // "WSIM"

pub fn seq_of(op: u32, idx: u32) -> u64 {
    ((op as u64) << 20) | (idx as u64 & 0xFFFFF)
}

pub fn payload(seed: u64, topic: u32, op: u32, idx: u32, len: u64) -> Vec<u8> {
    let len = len as usize;
    let seq = seq_of(op, idx);
    let mut out = Vec::with_capacity(len);
    let mut x = crate::rng::mix(seed, seq ^ 0xA5A5_0000_0000);
    if len >= HDR {
        out.extend_from_slice(&MAGIC.to_le_bytes());
        out.extend_from_slice(&(topic as u32).to_le_bytes());
        out.extend_from_slice(&seq.to_le_bytes());
        out.extend_from_slice(&(len as u32).to_le_bytes());
        out.extend_from_slice(&[0u8; 4]); // body hash, filled below
        fill(&mut out, len, &mut x);
        let h = crate::rng::fnv64(&out[HDR..]) as u32;
        out[20..24].copy_from_slice(&h.to_le_bytes());
    } else {
        fill(&mut out, len, &mut x);
    }
    out
}

fn fill(out: &mut Vec<u8>, len: usize, x: &mut u64) {
    while out.len() + 8 <= len {
        let w = crate::rng::splitmix(x) | 0x0101_0101_0101_0101; // never an all-zero word
        out.extend_from_slice(&w.to_le_bytes());
    }
    while out.len() < len {
        out.push((crate::rng::splitmix(x) as u8) | 1);
    }
}

/// Parse the harness header: Some((topic, seq)) when the bytes are a complete,
/// self-consistent harness payload.
pub fn parse_payload(data: &[u8]) -> Option<(u32, u64)> {
    if data.len() < HDR {
        return None;
    }
    if u32::from_le_bytes(data[0..4].try_into().unwrap()) != MAGIC {
        return None;
    }
    let topic = u32::from_le_bytes(data[4..8].try_into().unwrap());
    let seq = u64::from_le_bytes(data[8..16].try_into().unwrap());
    let len = u32::from_le_bytes(data[16..20].try_into().unwrap()) as usize;
    let h = u32::from_le_bytes(data[20..24].try_into().unwrap());
    if len != data.len() {
        return None;
    }
    if crate::rng::fnv64(&data[HDR..]) as u32 != h {
        return None;
    }
    Some((topic, seq))
}

pub fn entry_sig(data: &[u8]) -> (u64, u64, u64) {
    let seq = parse_payload(data).map(|(_, s)| s).unwrap_or(0);
    (data.len() as u64, crate::rng::fnv64(data), seq)
}

/// Model-side signature: (len, hash, origin) where origin always identifies (op, idx),
/// also for payloads too short to carry the harness header.
pub fn expected_sig(seed: u64, topic: u32, op: u32, idx: u32, len: u64) -> (u64, u64, u64) {
    let p = payload(seed, topic, op, idx, len);
    (p.len() as u64, crate::rng::fnv64(&p), seq_of(op, idx))
}
