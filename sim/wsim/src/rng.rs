//! Small deterministic PRNG (splitmix64 seeding, xoshiro256**).
#[derive(Clone, Debug)]
pub struct Rng {
    s: [u64; 4],
}

pub fn splitmix(x: &mut u64) -> u64 {
    *x = x.wrapping_add(0x9E3779B97F4A7C15);
    let mut z = *x;
    z = (z ^ (z >> 30)).wrapping_mul(0xBF58476D1CE4E5B9);
    z = (z ^ (z >> 27)).wrapping_mul(0x94D049BB133111EB);
    z ^ (z >> 31)
}

pub fn mix(a: u64, b: u64) -> u64 {
    let mut x = a ^ b.rotate_left(32) ^ 0xD6E8FEB86659FD93;
    let r = splitmix(&mut x);
    r ^ splitmix(&mut x)
}

pub fn fnv64(data: &[u8]) -> u64 {
    let mut h: u64 = 0xcbf29ce484222325;
    for &b in data {
        h ^= b as u64;
        h = h.wrapping_mul(0x00000100000001B3);
    }
    h
}

pub fn fnv_step(h: u64, v: u64) -> u64 {
    let mut h = h;
    for i in 0..8 {
        h ^= (v >> (i * 8)) & 0xff;
        h = h.wrapping_mul(0x00000100000001B3);
    }
    h
}

impl Rng {
    pub fn new(seed: u64) -> Self {
        let mut x = seed;
        let s = [splitmix(&mut x), splitmix(&mut x), splitmix(&mut x), splitmix(&mut x)];
        Rng { s }
    }
    pub fn next(&mut self) -> u64 {
        let r = self.s[1].wrapping_mul(5).rotate_left(7).wrapping_mul(9);
        let t = self.s[1] << 17;
        self.s[2] ^= self.s[0];
        self.s[3] ^= self.s[1];
        self.s[1] ^= self.s[2];
        self.s[0] ^= self.s[3];
        self.s[2] ^= t;
        self.s[3] = self.s[3].rotate_left(45);
        r
    }
    /// uniform in [0, n)
    pub fn below(&mut self, n: u64) -> u64 {
        if n == 0 {
            return 0;
        }
        self.next() % n
    }
    /// uniform in [lo, hi]
    pub fn range(&mut self, lo: u64, hi: u64) -> u64 {
        if hi <= lo {
            return lo;
        }
        lo + self.below(hi - lo + 1)
    }
    pub fn chance(&mut self, p: f64) -> bool {
        if p <= 0.0 {
            return false;
        }
        if p >= 1.0 {
            return true;
        }
        ((self.next() >> 11) as f64) * (1.0 / ((1u64 << 53) as f64)) < p
    }
    pub fn pick<'a, T>(&mut self, v: &'a [T]) -> &'a T {
        &v[self.below(v.len() as u64) as usize]
    }
    pub fn weighted(&mut self, w: &[u32]) -> usize {
        let total: u64 = w.iter().map(|x| *x as u64).sum();
        let mut r = self.below(total.max(1));
        for (i, x) in w.iter().enumerate() {
            if r < *x as u64 {
                return i;
            }
            r -= *x as u64;
        }
        w.len() - 1
    }
}
