//! Reference model for sequential histories (one client thread at a time) and
//! the per-rule findings derived from comparing it with the observed history.
use crate::plan::*;
use crate::runner::{Exit, RunResult};
use serde::{Deserialize, Serialize};
use std::collections::BTreeMap;

pub type Sig = (u64, u64, u64);

#[derive(Serialize, Deserialize, Clone, Debug)]
pub struct Finding {
    /// e.g. "c01.skip"; the prefix names the property that owns the rule
    pub rule: String,
    pub inc: usize,
    pub op: u32,
    pub detail: String,
    /// facts for known-finding fingerprints (computed without looking inside the engine)
    pub facts: BTreeMap<String, serde_json::Value>,
}

impl Finding {
    pub fn new(rule: &str, inc: usize, op: u32, detail: String) -> Self {
        Finding { rule: rule.into(), inc, op, detail, facts: BTreeMap::new() }
    }
    pub fn fact(mut self, k: &str, v: serde_json::Value) -> Self {
        self.facts.insert(k.into(), v);
        self
    }
    pub fn property(&self) -> String {
        self.rule.split('.').next().unwrap_or("").to_uppercase()
    }
}

#[derive(Clone, Debug, Default)]
pub struct TopicModel {
    pub log: Vec<Sig>,
    pub cursor: usize,
    pub appended_ok: u64,
    pub returned: u64,
    /// set when the model can no longer follow this topic (after a reported anomaly)
    pub lost_track: bool,
    /// AtLeastOnce after a restart: cursor may have fallen back; adopt on first read
    pub cursor_floating: bool,
    /// while floating: every resume point that is still consistent with what was observed
    pub float_candidates: Vec<usize>,
    pub count_unknown: bool,
    pub clean: Option<bool>,
    /// after a failed append the marker may be either value (the statement speaks of appends that return)
    pub clean_unknown: bool,
}

#[derive(Clone, Debug, Default)]
pub struct DirModel {
    pub topics: BTreeMap<u32, TopicModel>,
}

#[derive(Clone, Debug)]
pub struct OpenInst {
    pub dirkey: String,
    pub alo: u32,
}

pub struct SeqModel<'a> {
    pub plan: &'a Plan,
    pub dirs: BTreeMap<String, DirModel>,
    pub open: BTreeMap<u32, OpenInst>,
    pub findings: Vec<Finding>,
    pub ops: BTreeMap<u32, &'a Op>,
    /// last peek result, to compare with the consuming twin that follows
    last_peek: Option<(u32, OpKind, Res)>,
    last_snap: Option<(u32, String)>,
    /// operations executed since the last bookkeeping snapshot
    since_snap: Vec<u32>,
    pub stats: BTreeMap<String, u64>,
}

fn dirkey(dir: &str, key: &Option<String>) -> String {
    format!("{}|{}", dir, key.clone().unwrap_or_default())
}

pub fn index_ops(plan: &Plan) -> BTreeMap<u32, &Op> {
    let mut m = BTreeMap::new();
    for inc in &plan.incarnations {
        for ph in &inc.phases {
            for th in &ph.threads {
                for op in th {
                    m.insert(op.id, op);
                }
            }
        }
    }
    m
}

impl<'a> SeqModel<'a> {
    pub fn new(plan: &'a Plan) -> Self {
        SeqModel {
            plan,
            dirs: BTreeMap::new(),
            open: BTreeMap::new(),
            findings: Vec::new(),
            ops: index_ops(plan),
            last_peek: None,
            last_snap: None,
            since_snap: Vec::new(),
            stats: BTreeMap::new(),
        }
    }

    fn stat(&mut self, k: &str) {
        *self.stats.entry(k.to_string()).or_insert(0) += 1;
    }

    fn push(&mut self, f: Finding) {
        self.findings.push(f);
    }

    fn topic_mut(&mut self, inst: u32, topic: u32) -> Option<&mut TopicModel> {
        let dk = self.open.get(&inst)?.dirkey.clone();
        Some(self.dirs.entry(dk).or_default().topics.entry(topic).or_default())
    }

    /// Process the whole run. Incarnation boundaries are restarts: open instances are forgotten
    /// (their directories' models persist).
    pub fn run(&mut self, rr: &RunResult) {
        for (i, inc) in rr.incs.iter().enumerate() {
            self.open.clear();
            self.last_peek = None;
            for ev in &inc.events {
                match ev.t.as_str() {
                    "ret" => {
                        if let (Some(id), Some(res)) = (ev.op, ev.res.as_ref()) {
                            if let Some(op) = self.ops.get(&id).copied() {
                                self.apply(i, op, res);
                            }
                        }
                    }
                    "panic" => {
                        if ev.th != 0 && !ev.msg.as_deref().unwrap_or("").is_empty() {
                            // background-thread panics are recorded as a separate fact
                            self.stat("bg_or_client_panic_events");
                        }
                    }
                    _ => {}
                }
            }
            match &inc.exit {
                Exit::Code(0) | Exit::Code(77) => {}
                Exit::Code(78) => {
                    let msg = inc.events.iter().rev().find(|e| e.t == "deadlock").and_then(|e| e.msg.clone());
                    self.push(Finding::new("any.deadlock", i, 0, msg.unwrap_or_default()));
                }
                Exit::Code(79) => {
                    let msg = inc.events.iter().rev().find(|e| e.t == "nonterm").and_then(|e| e.msg.clone());
                    self.push(Finding::new("any.nonterm", i, 0, msg.unwrap_or_default()));
                }
                other => {
                    self.push(Finding::new(
                        "harness.exit",
                        i,
                        0,
                        format!("child ended with {:?}; stderr: {}", other, inc.stderr.chars().take(400).collect::<String>()),
                    ));
                }
            }
        }
    }

    fn expected_sigs(&self, op: &Op) -> Vec<Sig> {
        match &op.kind {
            OpKind::Append { topic, len, .. } => vec![expected_sig(self.plan.seed, *topic, op.id, 0, *len)],
            OpKind::BatchAppend { topic, lens, .. } => lens
                .iter()
                .enumerate()
                .map(|(i, l)| expected_sig(self.plan.seed, *topic, op.id, i as u32, *l))
                .collect(),
            OpKind::BatchAlias { topic, n, each, .. } => {
                let s = expected_sig(self.plan.seed, *topic, op.id, 0, *each);
                (0..*n).map(|_| s).collect()
            }
            _ => vec![],
        }
    }

    fn classify_mismatch(log: &[Sig], cursor: usize, got: &Sig) -> (String, i64) {
        // where in the log is the returned entry (searching nearest to the cursor first)
        let mut best: Option<usize> = None;
        for (j, s) in log.iter().enumerate() {
            if s.0 == got.0 && s.1 == got.1 {
                let better = match best {
                    None => true,
                    Some(b) => (j as i64 - cursor as i64).abs() < (b as i64 - cursor as i64).abs(),
                };
                if better {
                    best = Some(j);
                }
            }
        }
        match best {
            Some(j) if j > cursor => ("skip".into(), j as i64 - cursor as i64),
            Some(j) => ("redelivery".into(), j as i64 - cursor as i64),
            None => ("foreign".into(), 0),
        }
    }

    fn apply(&mut self, inc: usize, op: &'a Op, res: &Res) {
        let id = op.id;
        if !matches!(op.kind, OpKind::ReclaimSnap {}) {
            self.since_snap.push(id);
        }
        // the consuming twin of a peek must return the same thing
        if let Some((pid, pk, pres)) = self.last_peek.take() {
            let twin = match (&pk, &op.kind) {
                (
                    OpKind::ReadNext { inst: a, topic: b, .. },
                    OpKind::ReadNext { inst: c, topic: d, checkpoint: true },
                ) => a == c && b == d,
                (
                    OpKind::BatchRead { inst: a, topic: b, max_bytes: m1, start: None, .. },
                    OpKind::BatchRead { inst: c, topic: d, max_bytes: m2, start: None, checkpoint: true },
                ) => a == c && b == d && m1 == m2,
                _ => false,
            };
            if twin && pres.k == "ok" && res.k == "ok" && (pres.entries != res.entries || pres.none != res.none) {
                self.push(
                    Finding::new(
                        "c02.peek_differs",
                        inc,
                        id,
                        format!(
                            "peek op {} returned {:?}/none={:?}, the consuming read right after returned {:?}/none={:?}",
                            pid,
                            short(&pres.entries),
                            pres.none,
                            short(&res.entries),
                            res.none
                        ),
                    )
                    .fact("api", serde_json::json!(api_name(&op.kind)))
                    .fact("peek_n", serde_json::json!(pres.entries.len()))
                    .fact("read_n", serde_json::json!(res.entries.len())),
                );
            }
        }
        match &op.kind {
            OpKind::Open { inst, key, dir, alo, .. } => {
                if res.k == "ok" {
                    let dk = dirkey(dir, key);
                    let d = self.dirs.entry(dk.clone()).or_default();
                    if *alo > 0 {
                        for t in d.topics.values_mut() {
                            if t.cursor > 0 {
                                t.cursor_floating = true;
                                t.float_candidates = (0..=t.cursor).collect();
                                t.count_unknown = true;
                            }
                        }
                    }
                    self.open.insert(*inst, OpenInst { dirkey: dk, alo: *alo });
                } else {
                    self.push(Finding::new(
                        "c06.open_failed",
                        inc,
                        id,
                        format!("open returned {:?} {:?}", res.err_kind, res.msg),
                    ));
                }
            }
            OpKind::Close { inst } => {
                self.open.remove(inst);
            }
            OpKind::Append { inst, topic, .. } | OpKind::BatchAppend { inst, topic, .. } | OpKind::BatchAlias { inst, topic, .. } => {
                let sigs = if res.k == "ok" { self.expected_sigs(op) } else { vec![] };
                let is_batch = !matches!(op.kind, OpKind::Append { .. });
                let (inst, topic) = (*inst, *topic);
                let Some(t) = self.topic_mut(inst, topic) else { return };
                match res.k.as_str() {
                    "ok" => {
                        t.appended_ok += sigs.len() as u64;
                        t.log.extend(sigs);
                        let _ = is_batch;
                        t.clean = Some(false);
                        t.clean_unknown = false;
                    }
                    "err" => {
                        // failed append: nothing readable; marker state unspecified
                        t.clean_unknown = true;
                    }
                    _ => {
                        t.lost_track = true;
                        t.clean_unknown = true;
                        let msg = res.msg.clone().unwrap_or_default();
                        self.push(
                            Finding::new("c04.append_panic", inc, id, format!("append panicked: {}", msg))
                                .fact("msg", serde_json::json!(msg)),
                        );
                    }
                }
            }
            OpKind::ReadNext { inst, topic, checkpoint } => {
                self.apply_read(inc, op, res, *inst, *topic, *checkpoint, None, None);
                if !*checkpoint {
                    self.last_peek = Some((id, op.kind.clone(), res.clone()));
                }
            }
            OpKind::BatchRead { inst, topic, max_bytes, checkpoint, start } => {
                self.apply_read(inc, op, res, *inst, *topic, *checkpoint, Some(*max_bytes), *start);
                if !*checkpoint && start.is_none() {
                    self.last_peek = Some((id, op.kind.clone(), res.clone()));
                }
            }
            OpKind::Drain { inst, topic, .. } => {
                let (inst, topic) = (*inst, *topic);
                let alo = self.open.get(&inst).map(|o| o.alo).unwrap_or(0);
                let Some(t) = self.topic_mut(inst, topic) else { return };
                if t.lost_track {
                    return;
                }
                let mut cursor = t.cursor;
                if t.cursor_floating {
                    // AtLeastOnce after a restart: any resume point not beyond the consumed prefix is
                    // acceptable if the whole result continues the log from there to its end
                    let got = &res.entries;
                    let ok = t.float_candidates.iter().copied().filter(|j| *j + got.len() == t.log.len() && got.iter().zip(t.log[*j..].iter()).all(|(g, e)| g.0 == e.0 && g.1 == e.1)).max();
                    cursor = match ok {
                        Some(j) => j,
                        None => t.float_candidates.iter().copied().max().unwrap_or(cursor),
                    };
                    t.cursor_floating = false;
                    t.float_candidates.clear();
                }
                // a drain that stopped because it reached its call limit consumed only a prefix
                let ended_empty = res.calls.last() == Some(&0) || res.calls.is_empty();
                let full_expect: Vec<Sig> = t.log[cursor.min(t.log.len())..].to_vec();
                let expect: Vec<Sig> = if ended_empty || res.k != "ok" { full_expect } else { full_expect.into_iter().take(res.entries.len()).collect() };
                let log = t.log.clone();
                t.returned += res.entries.len() as u64;
                t.cursor = if ended_empty { t.log.len() } else { (cursor + res.entries.len()).min(t.log.len()) };
                let got = &res.entries;
                let mut first_bad = None;
                for i in 0..expect.len().max(got.len()) {
                    let e = expect.get(i);
                    let g = got.get(i);
                    if e.map(|s| (s.0, s.1)) != g.map(|s| (s.0, s.1)) {
                        first_bad = Some(i);
                        break;
                    }
                }
                if res.k != "ok" {
                    let f = Finding::new(
                        "c01.drain_error",
                        inc,
                        id,
                        format!("drain ended with {} {:?} {:?} after {} entries; {} owed", res.k, res.err_kind, res.msg, got.len(), expect.len()),
                    );
                    self.push(f);
                } else if let Some(i) = first_bad {
                    let (rule, detail, class, dist) = match (expect.get(i), got.get(i)) {
                        (Some(e), None) => (
                            "c01.drain_missing",
                            format!("drain returned {} entries then empty; {} unread entries were never delivered (first missing: len={} seq={:x})", got.len(), expect.len() - i, e.0, e.2),
                            "missing".to_string(),
                            (expect.len() - i) as i64,
                        ),
                        (_, Some(g)) => {
                            let (class, dist) = Self::classify_mismatch(&log, cursor + i, g);
                            (
                                "c01.drain_mismatch",
                                format!("drain entry #{} is len={} seq={:x}, expected {:?}: {} (distance {})", i, g.0, g.2, expect.get(i).map(|e| (e.0, e.2)), class, dist),
                                class,
                                dist,
                            )
                        }
                        _ => unreachable!(),
                    };
                    let missing_lens: Vec<u64> = expect.iter().skip(i).take(8).map(|s| s.0).collect();
                    let f = Finding::new(rule, inc, id, detail)
                        .fact("class", serde_json::json!(class))
                        .fact("distance", serde_json::json!(dist))
                        .fact("alo", serde_json::json!(alo))
                        .fact("next_expected_lens", serde_json::json!(missing_lens));
                    self.push(f);
                }
            }
            OpKind::Count { inst, topic } => {
                let (inst, topic) = (*inst, *topic);
                let Some(t) = self.topic_mut(inst, topic) else { return };
                if t.lost_track || t.count_unknown {
                    return;
                }
                let expect = t.appended_ok.saturating_sub(t.returned);
                let got = res.val.unwrap_or(u64::MAX);
                if res.k == "ok" && got != expect {
                    let (a, r) = (t.appended_ok, t.returned);
                    let f = Finding::new(
                        "c15.count",
                        inc,
                        id,
                        format!("count={} but appended_ok={} returned_by_consuming_reads={} (expected {})", got, a, r, expect),
                    )
                    .fact("got", serde_json::json!(got))
                    .fact("expected", serde_json::json!(expect));
                    self.push(f);
                }
                self.stat("count_checked");
            }
            OpKind::Counts { inst } => {
                let inst = *inst;
                let Some(oi) = self.open.get(&inst).cloned() else { return };
                let d = self.dirs.entry(oi.dirkey).or_default().clone();
                if let Some(map) = &res.map {
                    for (tid, t) in d.topics.iter() {
                        if t.lost_track || t.count_unknown {
                            continue;
                        }
                        let name = &self.plan.topics[*tid as usize];
                        let expect = t.appended_ok.saturating_sub(t.returned);
                        let got = map.get(name).copied().unwrap_or(0);
                        if got != expect {
                            self.push(
                                Finding::new(
                                    "c15.count",
                                    inc,
                                    id,
                                    format!("counts[{}]={} expected {}", name, got, expect),
                                )
                                .fact("got", serde_json::json!(got))
                                .fact("expected", serde_json::json!(expect)),
                            );
                        }
                    }
                }
            }
            OpKind::MarkClean { inst, topic } => {
                if let Some(t) = self.topic_mut(*inst, *topic) {
                    t.clean = Some(true);
                    t.clean_unknown = false;
                }
            }
            OpKind::MarkDirty { inst, topic } => {
                if let Some(t) = self.topic_mut(*inst, *topic) {
                    t.clean = Some(false);
                    t.clean_unknown = false;
                }
            }
            OpKind::IsClean { inst, topic } => {
                let (inst, topic) = (*inst, *topic);
                let Some(t) = self.topic_mut(inst, topic) else { return };
                // a topic never touched reports clean
                let expect = if t.clean_unknown { None } else { Some(t.clean.unwrap_or(true)) };
                if let (Some(e), Some(g)) = (expect, res.flag) {
                    if e != g {
                        self.push(
                            Finding::new(
                                "c17.marker",
                                inc,
                                id,
                                format!("topic_is_clean={} but the last completed call set {}", g, if e { "clean" } else { "dirty" }),
                            )
                            .fact("got", serde_json::json!(g)),
                        );
                    }
                }
                self.stat("marker_checked");
            }
            OpKind::ReclaimSnap {} => {
                if let Some(text) = &res.text {
                    if let Some((pid, prev)) = &self.last_snap {
                        let only_nonconsuming = self.since_snap.len() == 1
                            && self
                                .ops
                                .get(&self.since_snap[0])
                                .map(|o| {
                                    matches!(
                                        o.kind,
                                        OpKind::ReadNext { checkpoint: false, .. } | OpKind::BatchRead { checkpoint: false, .. } | OpKind::BatchRead { start: Some(_), .. }
                                    )
                                })
                                .unwrap_or(false);
                        if only_nonconsuming && snap_core(prev) != snap_core(text) {
                            let (rule, facts) = classify_snap_change(prev, text);
                            let mut f = Finding::new(
                                rule,
                                inc,
                                id,
                                format!("reclamation bookkeeping changed across the non-consuming read op {} (snapshots {} and {}): before={} after={}", self.since_snap[0], pid, id, trunc(prev, 300), trunc(text, 300)),
                            )
                            .fact("api", serde_json::json!(self.ops.get(&self.since_snap[0]).map(|o| api_name(&o.kind)).unwrap_or("?")));
                            for (k, v) in facts {
                                f = f.fact(&k, v);
                            }
                            self.push(f);
                        }
                    }
                    self.last_snap = Some((id, text.clone()));
                    self.since_snap.clear();
                }
            }
            OpKind::Sleep { .. } | OpKind::ListDir { .. } | OpKind::RemoveFile { .. } | OpKind::Mutate { .. } => {}
        }
    }

    #[allow(clippy::too_many_arguments)]
    fn apply_read(
        &mut self,
        inc: usize,
        op: &Op,
        res: &Res,
        inst: u32,
        topic: u32,
        checkpoint: bool,
        max_bytes: Option<u64>,
        start: Option<u64>,
    ) {
        let id = op.id;
        let seed = self.plan.seed;
        let alo = self.open.get(&inst).map(|o| o.alo).unwrap_or(0);
        let api = api_name(&op.kind);
        let Some(t) = self.topic_mut(inst, topic) else { return };
        if t.lost_track {
            return;
        }
        if res.k != "ok" {
            // a read that fails must not lose anything: checked by the reads that follow
            let (k, ek, m) = (res.k.clone(), res.err_kind.clone(), res.msg.clone());
            if k == "panic" {
                t.lost_track = true;
            }
            let f = Finding::new(
                if k == "panic" { "c01.read_panic" } else { "c01.read_error" },
                inc,
                id,
                format!("{} returned {} {:?} {:?}", api, k, ek, m),
            )
            .fact("api", serde_json::json!(api))
            .fact("msg", serde_json::json!(m));
            self.push(f);
            return;
        }
        let got = &res.entries;
        let mut out: Vec<Finding> = Vec::new();
        // ---- C03: cap / budget (every batch read) ----
        if let Some(mb) = max_bytes {
            if got.len() > 2000 {
                out.push(Finding::new("c03.cap", inc, id, format!("batch read returned {} entries (> 2000)", got.len())));
            }
            let total: u128 = got.iter().map(|s| s.0 as u128).sum();
            if got.len() != 1 && total > mb as u128 {
                out.push(
                    Finding::new(
                        "c03.budget",
                        inc,
                        id,
                        format!("batch read returned {} entries totalling {} payload bytes with budget {}", got.len(), total, mb),
                    )
                    .fact("n", serde_json::json!(got.len())),
                );
            }
        }
        if let Some(off) = start {
            // ---- C02: offset-addressed reads return only this topic's entries (first may be a suffix), in order ----
            let mut pos = 0usize;
            for (i, g) in got.iter().enumerate() {
                let mut found = None;
                for j in pos..t.log.len() {
                    let s = &t.log[j];
                    if s.0 == g.0 && s.1 == g.1 {
                        found = Some(j);
                        break;
                    }
                    if i == 0 && s.0 > g.0 {
                        // suffix of entry j?
                        if let Some((op_id, idx)) = Some(((s.2 >> 20) as u32, (s.2 & 0xFFFFF) as u32)) {
                            let p = payload(seed, topic, op_id, idx, s.0);
                            let suf = &p[(s.0 - g.0) as usize..];
                            if crate::rng::fnv64(suf) == g.1 {
                                found = Some(j);
                                break;
                            }
                        }
                    }
                }
                match found {
                    Some(j) => pos = j + 1,
                    None => {
                        out.push(
                            Finding::new(
                                "c02.offset_foreign",
                                inc,
                                id,
                                format!("offset read (start={}) entry #{} len={} is not an entry (or first-entry suffix) of this topic in append order", off, i, g.0),
                            )
                            .fact("index", serde_json::json!(i)),
                        );
                        break;
                    }
                }
            }
            // state effects of offset reads are observed through later reads/counts
            for f in out {
                self.push(f);
            }
            return;
        }
        // ---- stateful reads ----
        let mut cursor = t.cursor;
        if t.cursor_floating {
            // AtLeastOnce after a restart: keep every resume point consistent with the observations
            // (identical entries make a single observation ambiguous)
            let cands: Vec<usize> = t
                .float_candidates
                .iter()
                .copied()
                .filter(|j| {
                    if got.is_empty() {
                        *j >= t.log.len() || !checkpoint
                    } else {
                        *j + got.len() <= t.log.len() && got.iter().zip(t.log[*j..].iter()).all(|(g, e)| g.0 == e.0 && g.1 == e.1)
                    }
                })
                .collect();
            if cands.is_empty() {
                // no admissible resume point explains the result: judge it from the latest one
                cursor = t.float_candidates.iter().copied().max().unwrap_or(cursor);
                t.cursor = cursor;
                t.cursor_floating = false;
                t.float_candidates.clear();
            } else {
                let next: Vec<usize> = if checkpoint { cands.iter().map(|j| j + got.len()).collect() } else { cands };
                if checkpoint {
                    t.returned += got.len() as u64;
                }
                t.cursor = next.iter().copied().max().unwrap_or(cursor);
                if next.len() == 1 {
                    t.cursor_floating = false;
                    t.float_candidates.clear();
                } else {
                    t.float_candidates = next;
                }
                for f in out {
                    self.push(f);
                }
                return;
            }
        }
        let unread = t.log.len().saturating_sub(cursor);
        if got.is_empty() {
            if unread > 0 {
                let next = t.log[cursor];
                let rule = if max_bytes.is_some() { "c03.no_progress" } else { "c01.empty_with_unread" };
                out.push(
                    Finding::new(
                        rule,
                        inc,
                        id,
                        format!("{} (checkpoint={}, budget={:?}) returned nothing while {} unread entries exist (next len={})", api, checkpoint, max_bytes, unread, next.0),
                    )
                    .fact("api", serde_json::json!(api))
                    .fact("budget", serde_json::json!(max_bytes))
                    .fact("next_len", serde_json::json!(next.0))
                    .fact("checkpoint", serde_json::json!(checkpoint)),
                );
            }
        } else {
            let mut bad = None;
            for (i, g) in got.iter().enumerate() {
                match t.log.get(cursor + i) {
                    Some(e) if e.0 == g.0 && e.1 == g.1 => {}
                    _ => {
                        bad = Some(i);
                        break;
                    }
                }
            }
            if let Some(i) = bad {
                let (class, dist) = Self::classify_mismatch(&t.log, cursor + i, &got[i]);
                let exp = t.log.get(cursor + i).copied();
                let skipped_lens: Vec<u64> = if class == "skip" {
                    t.log[cursor + i..(cursor + i + dist as usize).min(t.log.len())].iter().take(8).map(|s| s.0).collect()
                } else {
                    vec![]
                };
                out.push(
                    Finding::new(
                        &format!("c01.{}", class),
                        inc,
                        id,
                        format!(
                            "{} (checkpoint={}, budget={:?}) entry #{} is len={} seq={:x}; expected {:?}: {} (distance {})",
                            api, checkpoint, max_bytes, i, got[i].0, got[i].2, exp.map(|e| (e.0, e.2)), class, dist
                        ),
                    )
                    .fact("api", serde_json::json!(api))
                    .fact("index", serde_json::json!(i))
                    .fact("distance", serde_json::json!(dist))
                    .fact("alo", serde_json::json!(alo))
                    .fact("checkpoint", serde_json::json!(checkpoint))
                    .fact("skipped_lens", serde_json::json!(skipped_lens)),
                );
                // resynchronise so that one defect is reported once
                if checkpoint {
                    if class == "skip" || class == "redelivery" {
                        let newc = (cursor as i64 + i as i64 + dist + (got.len() - i) as i64).max(0) as usize;
                        t.returned += got.len() as u64;
                        t.cursor = newc.min(t.log.len());
                    } else {
                        t.lost_track = true;
                    }
                }
                for f in out {
                    self.push(f);
                }
                return;
            }
        }
        if checkpoint {
            t.cursor = cursor + got.len();
            t.returned += got.len() as u64;
        }
        for f in out {
            self.push(f);
        }
    }
}

/// The reclamation bookkeeping proper (per-file counters, per-block flags) of a snapshot text.
fn snap_core(text: &str) -> (serde_json::Value, serde_json::Value) {
    let v = serde_json::from_str::<serde_json::Value>(text).unwrap_or(serde_json::Value::Null);
    (v["files"].clone(), v["blocks"].clone())
}

/// Was sealed block `id` fully passed by its topic's consumer, according to the reader state in snapshot `snap`?
/// None: the block is in no topic's sealed chain.
fn block_consumed_in(snap: &serde_json::Value, id: u64) -> Option<bool> {
    for t in snap["topics"].as_array()? {
        let cur_idx = t[2].as_u64().unwrap_or(0);
        let cur_off = t[3].as_u64().unwrap_or(0);
        if let Some(chain) = t[4].as_array() {
            for (i, b) in chain.iter().enumerate() {
                if b[0].as_u64() == Some(id) {
                    let used = b[1].as_u64().unwrap_or(0);
                    return Some(cur_idx > i as u64 || (cur_idx == i as u64 && cur_off >= used));
                }
            }
        }
    }
    None
}

/// What changed between two reclamation snapshots. "c02.reclaim_marked": the only change is that
/// some blocks went from not-consumed to consumed and each file's consumed counter rose by exactly
/// the number of its blocks that flipped. Anything else is "c02.reclaim_state_changed".
fn classify_snap_change(before: &str, after: &str) -> (&'static str, Vec<(String, serde_json::Value)>) {
    let parse = |s: &str| serde_json::from_str::<serde_json::Value>(s).unwrap_or(serde_json::Value::Null);
    let (b, a) = (parse(before), parse(after));
    let mut other = false;
    let mut marked_unconsumed = 0i64;
    let mut flips: BTreeMap<String, i64> = BTreeMap::new();
    let (bb, ab) = (b["blocks"].as_array().cloned().unwrap_or_default(), a["blocks"].as_array().cloned().unwrap_or_default());
    if bb.len() != ab.len() {
        other = true;
    }
    for (x, y) in bb.iter().zip(ab.iter()) {
        if x[0] != y[0] || x[1] != y[1] {
            other = true;
        } else if x[2] != y[2] {
            if x[2] == serde_json::json!(false) && y[2] == serde_json::json!(true) {
                *flips.entry(x[1].as_str().unwrap_or("").to_string()).or_insert(0) += 1;
                // had the consumer passed this block before the non-consuming call?
                match block_consumed_in(&b, x[0].as_u64().unwrap_or(u64::MAX)) {
                    Some(true) => {}
                    _ => marked_unconsumed += 1,
                }
            } else {
                other = true;
            }
        }
    }
    let (bf, af) = (b["files"].as_array().cloned().unwrap_or_default(), a["files"].as_array().cloned().unwrap_or_default());
    if bf.len() != af.len() {
        other = true;
    }
    let mut counter_excess = 0i64;
    for (x, y) in bf.iter().zip(af.iter()) {
        if x[0] != y[0] || x[1] != y[1] || x[3] != y[3] || x[4] != y[4] {
            other = true;
        }
        let d = y[2].as_i64().unwrap_or(0) - x[2].as_i64().unwrap_or(0);
        let fl = flips.get(x[0].as_str().unwrap_or("")).copied().unwrap_or(0);
        if d != fl {
            counter_excess += d - fl;
            other = true;
        }
    }
    let total_flips: i64 = flips.values().sum();
    let facts = vec![
        ("blocks_marked".to_string(), serde_json::json!(total_flips)),
        ("counter_excess".to_string(), serde_json::json!(counter_excess)),
        // blocks that were marked consumed although the consumer had not passed them when the call began
        ("marked_unconsumed".to_string(), serde_json::json!(marked_unconsumed)),
    ];
    if other {
        ("c02.reclaim_state_changed", facts)
    } else {
        ("c02.reclaim_marked", facts)
    }
}

/// Largest j <= cursor such that `got` equals log[j..j+got.len()] (and, for a drain, reaches the end of the log).
fn adopt_point(log: &[Sig], cursor: usize, got: &[Sig], to_end: bool) -> Option<usize> {
    if got.is_empty() {
        return None;
    }
    (0..=cursor.min(log.len())).rev().find(|&j| {
        j + got.len() <= log.len()
            && (!to_end || j + got.len() == log.len())
            && got.iter().zip(log[j..].iter()).all(|(g, e)| g.0 == e.0 && g.1 == e.1)
    })
}

pub fn api_name(k: &OpKind) -> &'static str {
    match k {
        OpKind::ReadNext { .. } => "read_next",
        OpKind::BatchRead { start: Some(_), .. } => "batch_read_offset",
        OpKind::BatchRead { .. } => "batch_read",
        OpKind::Append { .. } => "append",
        OpKind::BatchAppend { .. } | OpKind::BatchAlias { .. } => "batch_append",
        OpKind::Drain { .. } => "drain",
        _ => "other",
    }
}

fn short(v: &[Sig]) -> Vec<(u64, u64)> {
    v.iter().take(6).map(|s| (s.0, s.2)).collect()
}

fn trunc(s: &str, n: usize) -> String {
    s.chars().take(n).collect()
}
