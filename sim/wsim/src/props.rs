//! Property registry: which scenario decides which property.
use crate::gen::*;
use crate::oracle::*;
use crate::plan::*;
use crate::runner::*;
use std::collections::BTreeMap;

pub struct Env {
    pub bins: Bins,
    pub thorough: bool,
}

#[derive(Default)]
pub struct Outcome {
    /// child processes executed
    pub executions: u64,
    /// keys of runs that reached the property's trigger (distinct ones are counted)
    pub keys: Vec<u64>,
    pub findings: Vec<(Plan, Finding)>,
    pub sample: Option<serde_json::Value>,
    pub stats: BTreeMap<String, u64>,
    pub digest: u64,
    pub harness_errors: Vec<String>,
}

impl Outcome {
    pub fn stat(&mut self, k: &str, n: u64) {
        *self.stats.entry(k.to_string()).or_insert(0) += n;
    }
}

pub trait Scenario: Sync + Send {
    fn id(&self) -> &'static str;
    fn level(&self) -> &'static str {
        "exploration"
    }
    fn rule_text(&self) -> String;
    fn components(&self) -> serde_json::Value {
        serde_json::json!({
            "real": ["walrus-rust engine (src/wal/**) built from /repo's working tree with --cfg walrus_verif", "Linux file system (tmpfs) and io_uring"],
            "stub": ["thread scheduling, sleep/timeouts, wall clock and hash seeds are decided by the simulator (sim/wsim/src/sim.rs)"]
        })
    }
    fn run_one(&self, seed_r: u64, env: &Env) -> Outcome;
    /// Re-judge an explicit plan (replay / minimisation).
    fn judge_plan(&self, plan: &Plan, env: &Env) -> (Vec<Finding>, u64);
}

pub fn absorb_summary(out: &mut Outcome, rr: &RunResult) {
    for inc in &rr.incs {
        for e in inc.events.iter().rev() {
            if e.t == "summary" {
                if let Some(m) = &e.msg {
                    if let Ok(v) = serde_json::from_str::<serde_json::Value>(m) {
                        out.stat("sim_steps", v["steps"].as_u64().unwrap_or(0));
                        out.stat("sim_switches", v["switches"].as_u64().unwrap_or(0));
                        out.stat("io_events", v["io"].as_u64().unwrap_or(0));
                        if let Some(p) = v["probes"].as_object() {
                            for (k, n) in p {
                                out.stat(&format!("probe.{}", k), n.as_u64().unwrap_or(0));
                            }
                        }
                        if let Some(p) = v["faults_fired"].as_object() {
                            for (k, n) in p {
                                out.stat(&format!("fault.{}", k), n.as_u64().unwrap_or(0));
                            }
                        }
                    }
                }
                break;
            }
        }
        match inc.exit {
            Exit::Watchdog => out.harness_errors.push("watchdog".into()),
            Exit::Code(c) if ![0, 77, 78, 79].contains(&c) => {
                out.harness_errors.push(format!("child exit {} stderr={}", c, inc.stderr.chars().take(300).collect::<String>()))
            }
            _ => {}
        }
    }
}

pub fn sim_clock_ms(rr: &RunResult, plan: &Plan) -> u64 {
    let mut total = 0;
    for (i, inc) in rr.incs.iter().enumerate() {
        for e in inc.events.iter().rev() {
            if e.t == "summary" {
                if let Some(v) = e.msg.as_ref().and_then(|m| serde_json::from_str::<serde_json::Value>(m).ok()) {
                    let end = v["clock_ms"].as_u64().unwrap_or(0);
                    total += end.saturating_sub(plan.incarnations[i].clock_start_ms);
                }
                break;
            }
        }
    }
    total
}

pub fn plan_shape_key(plan: &Plan, rr: &RunResult) -> u64 {
    let mut h = crate::rng::fnv64(serde_json::to_string(&plan.incarnations.iter().map(|i| &i.phases).collect::<Vec<_>>()).unwrap().as_bytes());
    for inc in &rr.incs {
        for e in inc.events.iter().rev() {
            if e.t == "summary" {
                if let Some(m) = &e.msg {
                    if let Ok(v) = serde_json::from_str::<serde_json::Value>(m) {
                        h = crate::rng::fnv_step(h, crate::rng::fnv64(v["sched_hash"].as_str().unwrap_or("").as_bytes()));
                    }
                }
                break;
            }
        }
    }
    h
}

pub fn render_sample(plan: &Plan) -> serde_json::Value {
    let mut ops = Vec::new();
    for (i, inc) in plan.incarnations.iter().enumerate() {
        for (p, ph) in inc.phases.iter().enumerate() {
            for (t, th) in ph.threads.iter().enumerate() {
                let s: Vec<String> = th.iter().take(40).map(|o| short_op(o, plan)).collect();
                ops.push(serde_json::json!({"inc": i, "phase": p, "thread": t, "backend": inc.backend, "policy": inc.sched.policy, "ops": s, "faults": inc.faults}));
            }
        }
    }
    serde_json::json!({"seed": plan.seed, "geometry": plan.geometry, "profile": plan.profile, "threads": ops})
}

pub fn short_op(o: &Op, plan: &Plan) -> String {
    let tn = |t: &u32| -> String {
        let n = &plan.topics[*t as usize];
        if n.len() > 12 {
            format!("{}..({})", &n.chars().take(8).collect::<String>(), n.len())
        } else {
            n.clone()
        }
    };
    match &o.kind {
        OpKind::Open { alo, fsync, .. } => format!("#{} open(alo={},fsync={})", o.id, alo, fsync),
        OpKind::Close { .. } => format!("#{} close", o.id),
        OpKind::Append { topic, len, .. } => format!("#{} append({},{})", o.id, tn(topic), len),
        OpKind::BatchAppend { topic, lens, .. } => {
            if lens.len() <= 6 {
                format!("#{} batch_append({},{:?})", o.id, tn(topic), lens)
            } else {
                format!("#{} batch_append({},n={},sum={})", o.id, tn(topic), lens.len(), lens.iter().sum::<u64>())
            }
        }
        OpKind::BatchAlias { topic, n, each, .. } => format!("#{} batch_append({},{}x{})", o.id, tn(topic), n, each),
        OpKind::ReadNext { topic, checkpoint, .. } => format!("#{} read_next({},{})", o.id, tn(topic), checkpoint),
        OpKind::BatchRead { topic, max_bytes, checkpoint, start, .. } => {
            format!("#{} batch_read({},{},{},{:?})", o.id, tn(topic), max_bytes, checkpoint, start)
        }
        OpKind::Drain { topic, mode, .. } => format!("#{} drain({},{})", o.id, tn(topic), mode),
        OpKind::Count { topic, .. } => format!("#{} count({})", o.id, tn(topic)),
        OpKind::Counts { .. } => format!("#{} counts", o.id),
        OpKind::MarkClean { topic, .. } => format!("#{} mark_clean({})", o.id, tn(topic)),
        OpKind::MarkDirty { topic, .. } => format!("#{} mark_dirty({})", o.id, tn(topic)),
        OpKind::IsClean { topic, .. } => format!("#{} is_clean({})", o.id, tn(topic)),
        OpKind::Sleep { ms } => format!("#{} sleep({}ms)", o.id, ms),
        OpKind::ReclaimSnap {} => format!("#{} snap", o.id),
        OpKind::ListDir { dir } => format!("#{} ls({})", o.id, dir),
    }
}

// ---------------------------------------------------------------------------
// Sequential scenarios (one client thread): C01 C02 C03 C06 C15 C17
// ---------------------------------------------------------------------------
pub struct SeqScenario {
    pub id: &'static str,
    pub opts: fn(u64) -> SeqOpts,
    /// rule prefixes this property owns
    pub owns: &'static [&'static str],
    pub rule: &'static str,
    /// run counts as non-trivial when this stat of the model is > 0 or always
    pub trigger: fn(&Plan, &RunResult, &SeqModel) -> bool,
}

pub fn judge_seq(plan: &Plan, rr: &RunResult) -> (Vec<Finding>, BTreeMap<String, u64>) {
    let mut m = SeqModel::new(plan);
    m.run(rr);
    (m.findings.clone(), m.stats.clone())
}

impl Scenario for SeqScenario {
    fn id(&self) -> &'static str {
        self.id
    }
    fn rule_text(&self) -> String {
        self.rule.to_string()
    }
    fn run_one(&self, seed_r: u64, env: &Env) -> Outcome {
        let o = (self.opts)(seed_r);
        let plan = gen_seq(seed_r, &o);
        let rr = run_plan(&env.bins, &plan, &RunOpts::default());
        let mut out = Outcome::default();
        out.executions = rr.incs.len() as u64;
        out.digest = history_hash(&rr);
        absorb_summary(&mut out, &rr);
        out.stat("sim_clock_ms", sim_clock_ms(&rr, &plan));
        out.stat(&format!("geometry.{}", plan.geometry), 1);
        out.stat(&format!("backend.{}", plan.incarnations[0].backend), 1);
        let mut m = SeqModel::new(&plan);
        m.run(&rr);
        for (k, v) in m.stats.iter() {
            out.stat(&format!("model.{}", k), *v);
        }
        if (self.trigger)(&plan, &rr, &m) {
            out.keys.push(plan_shape_key(&plan, &rr));
        }
        for f in m.findings.iter() {
            if self.owns.iter().any(|p| f.rule.starts_with(p)) {
                out.findings.push((plan.clone(), f.clone()));
            } else if f.rule.starts_with("harness.") {
                out.harness_errors.push(f.detail.clone());
            } else {
                out.stat(&format!("other_rule.{}", f.rule), 1);
            }
        }
        out.sample = Some(render_sample(&plan));
        out
    }
    fn judge_plan(&self, plan: &Plan, env: &Env) -> (Vec<Finding>, u64) {
        let rr = run_plan(&env.bins, plan, &RunOpts::default());
        let (f, _) = judge_seq(plan, &rr);
        (f.into_iter().filter(|f| self.owns.iter().any(|p| f.rule.starts_with(p))).collect(), history_hash(&rr))
    }
}

fn any_read(plan: &Plan, _rr: &RunResult, _m: &SeqModel) -> bool {
    plan.incarnations.iter().any(|i| {
        i.phases.iter().any(|p| {
            p.threads.iter().any(|t| t.iter().filter(|o| matches!(o.kind, OpKind::Append { .. } | OpKind::BatchAppend { .. })).count() >= 2)
        })
    })
}

fn has_batch_read(plan: &Plan, _rr: &RunResult, _m: &SeqModel) -> bool {
    plan.incarnations
        .iter()
        .any(|i| i.phases.iter().any(|p| p.threads.iter().any(|t| t.iter().any(|o| matches!(o.kind, OpKind::BatchRead { .. })))))
}

fn count_checked(_plan: &Plan, _rr: &RunResult, m: &SeqModel) -> bool {
    m.stats.get("count_checked").copied().unwrap_or(0) > 0
}

pub fn scenario(id: &str) -> Option<Box<dyn Scenario>> {
    Some(match id {
        "C01" => Box::new(SeqScenario {
            id: "C01",
            opts: |_s| SeqOpts::base("C01", "seq"),
            owns: &["c01.", "any."],
            rule: "seeded operation sequences (append, batch_append, read_next, batch_read with budgets, 1-3 topics, sizes 0..multi-block, fd/mmap, StrictlyAtOnce/AtLeastOnce, all fsync schedules, both geometries) executed on the real engine under the simulator and compared op by op with a reference log+cursor model; a run is non-trivial when it appends at least two entries; distinct = distinct (plan shape, schedule hash)",
            trigger: any_read,
        }),
        "C03" => Box::new(SeqScenario {
            id: "C03",
            opts: |_s| {
                let mut o = SeqOpts::base("C03", "budget");
                o.w = [25, 15, 8, 40, 0, 10, 0, 0, 0, 1];
                o
            },
            owns: &["c03."],
            rule: "as C01 with the mix shifted to batch reads (consuming and peeking) whose budgets are drawn from boundary sets (0, 1, next entry +-1, next two +-1, block size, usize::MAX-k); oracle: <=2000 entries, payload sum <= budget unless exactly one entry, >=1 entry whenever the reference model holds an unread entry; non-trivial = run contains a batch read",
            trigger: has_batch_read,
        }),
        "C15" => Box::new(SeqScenario {
            id: "C15",
            opts: |s| {
                let mut o = SeqOpts::base("C15", "counts");
                o.w = [30, 12, 20, 20, 10, 6, 4, 0, 6, 2];
                o.count_after_every_op = true;
                o.incarnations = (1, 3);
                o.p_same_process_restart = if s % 3 == 0 { 0.05 } else { 0.0 };
                o
            },
            owns: &["c15."],
            rule: "C01/C06-style histories (peeks, offset reads, rejected appends and clean restarts interleaved) with get_topic_entry_count queried after every operation; expected = entries of successful appends - entries actually returned by consuming reads (StrictlyAtOnce across restarts; AtLeastOnce counts are not asserted after a restart); non-trivial = at least one count compared",
            trigger: count_checked,
        }),
        _ => return None,
    })
}

pub const ALL_IDS: &[&str] = &["C01", "C03", "C15"];
