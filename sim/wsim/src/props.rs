//! Property registry: which scenario decides which property.
use crate::gen::*;
use crate::oracle::*;
use crate::plan::*;
use crate::runner::*;
use std::collections::{BTreeMap, BTreeSet};

pub struct Env {
    pub bins: Bins,
    pub thorough: bool,
    /// end of the search budget: multi-execution scenarios stop enumerating variants after it
    pub deadline: std::time::Instant,
}

#[derive(Default)]
pub struct Outcome {
    /// child processes executed
    pub executions: u64,
    /// keys of runs that reached the property's trigger (distinct ones are counted)
    pub keys: Vec<u64>,
    pub findings: Vec<(Plan, Finding)>,
    pub sample: Option<serde_json::Value>,
    pub stats: BTreeMap<String, u64>,
    pub digest: u64,
    /// an enumeration inside this run was cut short by the wall-clock cap: its digest is not comparable
    pub deadline_cut: bool,
    pub harness_errors: Vec<String>,
}

impl Outcome {
    pub fn stat(&mut self, k: &str, n: u64) {
        *self.stats.entry(k.to_string()).or_insert(0) += n;
    }
}

pub trait Scenario: Sync + Send {
    fn id(&self) -> &'static str;
    fn level(&self) -> &'static str {
        "exploration"
    }
    fn rule_text(&self) -> String;
    fn components(&self) -> serde_json::Value {
        serde_json::json!({
            "real": ["walrus-rust engine (src/wal/**) built from /repo's working tree with --cfg walrus_verif", "Linux file system (tmpfs) and io_uring"],
            "stub": ["thread scheduling, sleep/timeouts, wall clock and hash seeds are decided by the simulator (sim/wsim/src/sim.rs)"]
        })
    }
    fn run_one(&self, seed_r: u64, env: &Env) -> Outcome;
    fn plan_for(&self, _seed_r: u64) -> Option<Plan> {
        None
    }
    /// Re-judge an explicit plan (replay / minimisation).
    fn judge_plan(&self, plan: &Plan, env: &Env) -> (Vec<Finding>, u64);
}

pub fn absorb_summary(out: &mut Outcome, rr: &RunResult) {
    for inc in &rr.incs {
        for e in inc.events.iter().rev() {
            if e.t == "summary" {
                if let Some(m) = &e.msg {
                    if let Ok(v) = serde_json::from_str::<serde_json::Value>(m) {
                        out.stat("sim_steps", v["steps"].as_u64().unwrap_or(0));
                        out.stat("sim_switches", v["switches"].as_u64().unwrap_or(0));
                        out.stat("io_events", v["io"].as_u64().unwrap_or(0));
                        if let Some(p) = v["probes"].as_object() {
                            for (k, n) in p {
                                out.stat(&format!("probe.{}", k), n.as_u64().unwrap_or(0));
                            }
                        }
                        if let Some(p) = v["faults_fired"].as_object() {
                            for (k, n) in p {
                                out.stat(&format!("fault.{}", k), n.as_u64().unwrap_or(0));
                            }
                        }
                    }
                }
                break;
            }
        }
        match inc.exit {
            Exit::Watchdog => out.harness_errors.push(format!("watchdog; last events: {:?}", inc.events.iter().rev().take(3).map(|e| format!("{} {:?} {:?}", e.t, e.op, e.msg)).collect::<Vec<_>>())),
            Exit::Code(c) if ![0, 77, 78, 79].contains(&c) => {
                out.harness_errors.push(format!("child exit {} stderr={}", c, inc.stderr.chars().take(300).collect::<String>()))
            }
            _ => {}
        }
    }
}

pub fn sim_clock_ms(rr: &RunResult, _plan: &Plan) -> u64 {
    let mut total = 0;
    for inc in rr.incs.iter() {
        let start = inc
            .events
            .iter()
            .find(|e| e.t == "start")
            .and_then(|e| e.msg.as_ref())
            .and_then(|m| m.split("clock_ms=").nth(1))
            .and_then(|s| s.trim().parse::<u64>().ok());
        if let (Some(s), Some(e)) = (start, end_clock_ms(inc)) {
            total += e.saturating_sub(s);
        }
    }
    total
}

pub fn plan_shape_key(plan: &Plan, rr: &RunResult) -> u64 {
    let mut h = crate::rng::fnv64(serde_json::to_string(&plan.incarnations.iter().map(|i| &i.phases).collect::<Vec<_>>()).unwrap().as_bytes());
    for inc in &rr.incs {
        for e in inc.events.iter().rev() {
            if e.t == "summary" {
                if let Some(m) = &e.msg {
                    if let Ok(v) = serde_json::from_str::<serde_json::Value>(m) {
                        h = crate::rng::fnv_step(h, crate::rng::fnv64(v["sched_hash"].as_str().unwrap_or("").as_bytes()));
                    }
                }
                break;
            }
        }
    }
    h
}

pub fn render_sample(plan: &Plan) -> serde_json::Value {
    let mut ops = Vec::new();
    for (i, inc) in plan.incarnations.iter().enumerate() {
        for (p, ph) in inc.phases.iter().enumerate() {
            for (t, th) in ph.threads.iter().enumerate() {
                let s: Vec<String> = th.iter().take(40).map(|o| short_op(o, plan)).collect();
                ops.push(serde_json::json!({"inc": i, "phase": p, "thread": t, "backend": inc.backend, "policy": inc.sched.policy, "ops": s, "faults": inc.faults}));
            }
        }
    }
    serde_json::json!({"seed": plan.seed, "geometry": plan.geometry, "profile": plan.profile, "threads": ops})
}

pub fn short_op(o: &Op, plan: &Plan) -> String {
    let tn = |t: &u32| -> String {
        let n = &plan.topics[*t as usize];
        if n.len() > 12 {
            format!("{}..({})", &n.chars().take(8).collect::<String>(), n.len())
        } else {
            n.clone()
        }
    };
    match &o.kind {
        OpKind::Open { alo, fsync, .. } => format!("#{} open(alo={},fsync={})", o.id, alo, fsync),
        OpKind::Close { .. } => format!("#{} close", o.id),
        OpKind::Append { topic, len, .. } => format!("#{} append({},{})", o.id, tn(topic), len),
        OpKind::BatchAppend { topic, lens, .. } => {
            if lens.len() <= 6 {
                format!("#{} batch_append({},{:?})", o.id, tn(topic), lens)
            } else {
                format!("#{} batch_append({},n={},sum={})", o.id, tn(topic), lens.len(), lens.iter().sum::<u64>())
            }
        }
        OpKind::BatchAlias { topic, n, each, .. } => format!("#{} batch_append({},{}x{})", o.id, tn(topic), n, each),
        OpKind::ReadNext { topic, checkpoint, .. } => format!("#{} read_next({},{})", o.id, tn(topic), checkpoint),
        OpKind::BatchRead { topic, max_bytes, checkpoint, start, .. } => {
            format!("#{} batch_read({},{},{},{:?})", o.id, tn(topic), max_bytes, checkpoint, start)
        }
        OpKind::Drain { topic, mode, .. } => format!("#{} drain({},{})", o.id, tn(topic), mode),
        OpKind::Count { topic, .. } => format!("#{} count({})", o.id, tn(topic)),
        OpKind::Counts { .. } => format!("#{} counts", o.id),
        OpKind::MarkClean { topic, .. } => format!("#{} mark_clean({})", o.id, tn(topic)),
        OpKind::MarkDirty { topic, .. } => format!("#{} mark_dirty({})", o.id, tn(topic)),
        OpKind::IsClean { topic, .. } => format!("#{} is_clean({})", o.id, tn(topic)),
        OpKind::Sleep { ms } => format!("#{} sleep({}ms)", o.id, ms),
        OpKind::ReclaimSnap {} => format!("#{} snap", o.id),
        OpKind::ListDir { dir } => format!("#{} ls({})", o.id, dir),
        OpKind::RemoveFile { path } => format!("#{} rm({})", o.id, path),
        OpKind::Mutate { target, action, off, len, arg, .. } => format!("#{} damage({},{},off={},len={},arg={})", o.id, target, action, off, len, arg),
    }
}

// ---------------------------------------------------------------------------
// Sequential scenarios (one client thread): C01 C02 C03 C06 C15 C17
// ---------------------------------------------------------------------------
pub struct SeqScenario {
    pub id: &'static str,
    pub opts: fn(u64) -> SeqOpts,
    /// rule prefixes this property owns
    pub owns: &'static [&'static str],
    pub rule: &'static str,
    /// run counts as non-trivial when this stat of the model is > 0 or always
    pub trigger: fn(&Plan, &RunResult, &SeqModel) -> bool,
    /// findings of these rule prefixes are consequences this property owns; they are renamed `<to>.<rule>`
    pub relabel: Option<(&'static [&'static str], &'static str)>,
    /// C02: also run the plan with every non-consuming call removed (real code, fresh processes) and require
    /// identical results for all remaining operations
    pub twin_without_nonconsuming: bool,
}

fn is_nonconsuming(k: &OpKind) -> bool {
    matches!(k, OpKind::ReadNext { checkpoint: false, .. } | OpKind::BatchRead { checkpoint: false, .. } | OpKind::BatchRead { start: Some(_), .. } | OpKind::ReclaimSnap {})
}

/// The plan without its non-consuming calls (and without the bookkeeping snapshots that bracket them).
pub fn strip_nonconsuming(plan: &Plan) -> Plan {
    let mut p = plan.clone();
    for inc in p.incarnations.iter_mut() {
        for ph in inc.phases.iter_mut() {
            for th in ph.threads.iter_mut() {
                th.retain(|o| !is_nonconsuming(&o.kind));
            }
        }
    }
    p
}

fn has_removal(rr: &RunResult) -> bool {
    rr.incs.iter().any(|i| i.events.iter().any(|e| e.t == "io" && e.io.as_ref().map(|x| x.kind == "Remove").unwrap_or(false)))
}

/// C02, differential form: "a non-consuming read never changes what any later read returns or the reported counts".
/// `with` = the run of the full plan, `without` = the run of the same plan minus its non-consuming calls.
pub fn judge_twin(plan: &Plan, with: &RunResult, without: &RunResult) -> Vec<Finding> {
    let mut out = Vec::new();
    // a reclaimed file moves positional cursors after a reopen (C12's listed finding): not this rule's business
    if has_removal(with) || has_removal(without) {
        return out;
    }
    let ops = index_ops(plan);
    let (a, b) = (results_by_op(with), results_by_op(without));
    let alo = ops.values().find_map(|o| if let OpKind::Open { alo, .. } = &o.kind { Some(*alo) } else { None }).unwrap_or(0);
    // incarnation of each op (for the fact "after a restart")
    let mut inc_of: BTreeMap<u32, usize> = BTreeMap::new();
    for (i, inc) in plan.incarnations.iter().enumerate() {
        for ph in &inc.phases {
            for th in &ph.threads {
                for o in th {
                    inc_of.insert(o.id, i);
                }
            }
        }
    }
    for (id, y) in b.iter() {
        let Some(op) = ops.get(id) else { continue };
        if is_nonconsuming(&op.kind) {
            continue;
        }
        let Some(x) = a.get(id) else {
            out.push(Finding::new("c02.twin_differs", inc_of.get(id).copied().unwrap_or(0), *id, format!("op {} ({}) returned in the run without non-consuming calls but not in the run with them", id, short_op(op, plan))));
            return out;
        };
        let same = x.k == y.k && x.err_kind == y.err_kind && x.entries == y.entries && x.none == y.none && x.val == y.val && x.flag == y.flag && x.map == y.map;
        if !same {
            // the last non-consuming call before this op in the full plan
            let inc = inc_of.get(id).copied().unwrap_or(0);
            out.push(
                Finding::new(
                    "c02.twin_differs",
                    inc,
                    *id,
                    format!(
                        "op {} ({}) returns {} {:?} entries={:?} none={:?} val={:?} in the history with peeks/offset reads, and {} {:?} entries={:?} none={:?} val={:?} in the same history without them",
                        id,
                        short_op(op, plan),
                        x.k,
                        x.err_kind,
                        x.entries.iter().take(4).map(|s| (s.0, s.2)).collect::<Vec<_>>(),
                        x.none,
                        x.val,
                        y.k,
                        y.err_kind,
                        y.entries.iter().take(4).map(|s| (s.0, s.2)).collect::<Vec<_>>(),
                        y.none,
                        y.val
                    ),
                )
                .fact("api", serde_json::json!(api_name(&op.kind)))
                .fact("alo", serde_json::json!(alo))
                .fact("after_restart", serde_json::json!(inc > 0)),
            );
            return out;
        }
    }
    out
}

impl SeqScenario {
    fn map_findings(&self, fs: Vec<Finding>) -> Vec<Finding> {
        fs.into_iter()
            .map(|mut f| {
                if let Some((from, to)) = self.relabel {
                    if from.iter().any(|p| f.rule.starts_with(p)) {
                        f.rule = format!("{}.{}", to, f.rule.replace('.', "_"));
                    }
                }
                f
            })
            .collect()
    }
}

/// Tag each finding with whether a WAL file had been reclaimed before the (re)open that precedes the
/// failing operation: the fingerprint of C12's listed finding (positional cursors after reclamation).
pub fn tag_removal_facts(plan: &Plan, rr: &RunResult, findings: &mut [Finding]) {
    let mut removed_any = false;
    let mut reopened_after_removal = false;
    let mut ret_pos: BTreeMap<u32, bool> = BTreeMap::new();
    let opsx = index_ops(plan);
    for inc in rr.incs.iter() {
        // a fresh process is a reopen too
        if removed_any {
            reopened_after_removal = true;
        }
        for e in &inc.events {
            if e.t == "io" && e.io.as_ref().map(|io| io.kind == "Remove").unwrap_or(false) {
                removed_any = true;
            }
            if e.t == "ret" {
                if let Some(id) = e.op {
                    if matches!(opsx.get(&id).map(|o| &o.kind), Some(OpKind::Open { .. })) && removed_any {
                        reopened_after_removal = true;
                    }
                    ret_pos.insert(id, reopened_after_removal);
                }
            }
        }
    }
    for f in findings.iter_mut() {
        let v = ret_pos.get(&f.op).copied().unwrap_or(false);
        f.facts.insert("reopened_after_file_removal".into(), serde_json::json!(v));
    }
}

pub fn judge_seq(plan: &Plan, rr: &RunResult) -> (Vec<Finding>, BTreeMap<String, u64>) {
    let mut m = SeqModel::new(plan);
    m.run(rr);
    (m.findings.clone(), m.stats.clone())
}

impl Scenario for SeqScenario {
    fn id(&self) -> &'static str {
        self.id
    }
    fn rule_text(&self) -> String {
        self.rule.to_string()
    }
    fn run_one(&self, seed_r: u64, env: &Env) -> Outcome {
        let o = (self.opts)(seed_r);
        let plan = gen_seq(seed_r, &o);
        let rr = run_plan(&env.bins, &plan, &RunOpts::default());
        let mut out = Outcome::default();
        out.executions = rr.incs.len() as u64;
        out.digest = history_hash(&rr);
        absorb_summary(&mut out, &rr);
        out.stat("sim_clock_ms", sim_clock_ms(&rr, &plan));
        out.stat(&format!("geometry.{}", plan.geometry), 1);
        out.stat(&format!("backend.{}", plan.incarnations[0].backend), 1);
        let mut m = SeqModel::new(&plan);
        m.run(&rr);
        for (k, v) in m.stats.iter() {
            out.stat(&format!("model.{}", k), *v);
        }
        if (self.trigger)(&plan, &rr, &m) {
            out.keys.push(plan_shape_key(&plan, &rr));
        }
        let mut tagged = m.findings.clone();
        tag_removal_facts(&plan, &rr, &mut tagged);
        // findings that carry the fingerprint of C12's listed finding are not this property's verdict
        let (contaminated, clean): (Vec<Finding>, Vec<Finding>) = tagged.into_iter().partition(|f| f.facts.get("reopened_after_file_removal") == Some(&serde_json::json!(true)) && !f.rule.starts_with("harness."));
        if !contaminated.is_empty() {
            out.stat("contaminated_by_known_c12_finding", 1);
        }
        for f in self.map_findings(clean).iter() {
            if self.owns.iter().any(|p| f.rule.starts_with(p)) {
                out.findings.push((plan.clone(), f.clone()));
            } else if f.rule.starts_with("harness.") {
                out.harness_errors.push(f.detail.clone());
            } else {
                out.stat(&format!("other_rule.{}", f.rule), 1);
            }
        }
        if self.twin_without_nonconsuming && matches!(rr.incs.last().map(|i| &i.exit), Some(Exit::Code(0))) && rr.incs.len() == plan.incarnations.len() {
            let stripped = strip_nonconsuming(&plan);
            let r2 = run_plan(&env.bins, &stripped, &RunOpts::default());
            out.executions += r2.incs.len() as u64;
            out.digest = crate::rng::fnv_step(out.digest, history_hash(&r2));
            out.stat("twin_runs", 1);
            if r2.incs.len() == stripped.incarnations.len() && matches!(r2.incs.last().map(|i| &i.exit), Some(Exit::Code(0))) {
                for f in judge_twin(&plan, &rr, &r2) {
                    out.findings.push((plan.clone(), f));
                }
            }
        }
        out.sample = Some(render_sample(&plan));
        out
    }
    fn plan_for(&self, seed_r: u64) -> Option<Plan> {
        Some(gen_seq(seed_r, &(self.opts)(seed_r)))
    }
    fn judge_plan(&self, plan: &Plan, env: &Env) -> (Vec<Finding>, u64) {
        let rr = run_plan(&env.bins, plan, &RunOpts::default());
        let (mut f, _) = judge_seq(plan, &rr);
        tag_removal_facts(plan, &rr, &mut f);
        f.retain(|x| x.facts.get("reopened_after_file_removal") != Some(&serde_json::json!(true)));
        let f = self.map_findings(f);
        let mut f: Vec<Finding> = f.into_iter().filter(|f| self.owns.iter().any(|p| f.rule.starts_with(p))).collect();
        let mut hh = history_hash(&rr);
        if self.twin_without_nonconsuming && rr.incs.len() == plan.incarnations.len() && matches!(rr.incs.last().map(|i| &i.exit), Some(Exit::Code(0))) {
            let stripped = strip_nonconsuming(plan);
            let r2 = run_plan(&env.bins, &stripped, &RunOpts::default());
            hh = crate::rng::fnv_step(hh, history_hash(&r2));
            if r2.incs.len() == stripped.incarnations.len() && matches!(r2.incs.last().map(|i| &i.exit), Some(Exit::Code(0))) {
                f.extend(judge_twin(plan, &rr, &r2));
            }
        }
        (f, hh)
    }
}

fn any_read(plan: &Plan, _rr: &RunResult, _m: &SeqModel) -> bool {
    plan.incarnations.iter().any(|i| {
        i.phases.iter().any(|p| {
            p.threads.iter().any(|t| t.iter().filter(|o| matches!(o.kind, OpKind::Append { .. } | OpKind::BatchAppend { .. })).count() >= 2)
        })
    })
}

fn has_batch_read(plan: &Plan, _rr: &RunResult, _m: &SeqModel) -> bool {
    plan.incarnations
        .iter()
        .any(|i| i.phases.iter().any(|p| p.threads.iter().any(|t| t.iter().any(|o| matches!(o.kind, OpKind::BatchRead { .. })))))
}

fn has_failed_op(_plan: &Plan, rr: &RunResult, _m: &SeqModel) -> bool {
    rr.incs.iter().any(|i| i.events.iter().any(|e| e.t == "ret" && e.res.as_ref().map(|r| r.k != "ok").unwrap_or(false)))
}

fn has_nonconsuming(plan: &Plan, _rr: &RunResult, _m: &SeqModel) -> bool {
    plan.incarnations.iter().any(|i| {
        i.phases.iter().any(|p| {
            p.threads.iter().any(|t| {
                t.iter().any(|o| {
                    matches!(o.kind, OpKind::ReadNext { checkpoint: false, .. } | OpKind::BatchRead { checkpoint: false, .. } | OpKind::BatchRead { start: Some(_), .. })
                })
            })
        })
    })
}

fn has_restart_with_data(_plan: &Plan, rr: &RunResult, _m: &SeqModel) -> bool {
    rr.incs.len() >= 2
}

fn marker_checked(_plan: &Plan, _rr: &RunResult, m: &SeqModel) -> bool {
    m.stats.get("marker_checked").copied().unwrap_or(0) > 0
}

fn count_checked(_plan: &Plan, _rr: &RunResult, m: &SeqModel) -> bool {
    m.stats.get("count_checked").copied().unwrap_or(0) > 0
}

/// The plan a scenario generates for a per-run seed (debugging aid).
pub fn plan_for(id: &str, seed_r: u64) -> Option<Plan> {
    scenario(id).and_then(|s| s.plan_for(seed_r))
}

pub fn scenario(id: &str) -> Option<Box<dyn Scenario>> {
    Some(match id {
        "C01" => Box::new(SeqScenario {
            id: "C01",
            opts: |_s| SeqOpts::base("C01", "seq"),
            owns: &["c01.", "any."],
            rule: "seeded operation sequences (append, batch_append, read_next, batch_read with budgets, 1-3 topics, sizes 0..multi-block, fd/mmap, StrictlyAtOnce/AtLeastOnce, all fsync schedules, both geometries) executed on the real engine under the simulator and compared op by op with a reference log+cursor model; a run is non-trivial when it appends at least two entries; distinct = distinct (plan shape, schedule hash)",
            trigger: any_read,
            relabel: None,
            twin_without_nonconsuming: false,
        }),
        "C03" => Box::new(SeqScenario {
            id: "C03",
            opts: |_s| {
                let mut o = SeqOpts::base("C03", "budget");
                o.w = [25, 15, 8, 40, 0, 10, 0, 0, 0, 1];
                o
            },
            owns: &["c03."],
            rule: "as C01 with the mix shifted to batch reads (consuming and peeking) whose budgets are drawn from boundary sets (0, 1, next entry +-1, next two +-1, block size, usize::MAX-k); oracle: <=2000 entries, payload sum <= budget unless exactly one entry, >=1 entry whenever the reference model holds an unread entry; non-trivial = run contains a batch read",
            trigger: has_batch_read,
            relabel: None,
            twin_without_nonconsuming: false,
        }),
        "C15" => Box::new(C15Scenario),
        "C15seq" => Box::new(SeqScenario {
            id: "C15",
            opts: |s| {
                let mut o = SeqOpts::base("C15", "counts");
                o.w = [30, 12, 20, 20, 10, 6, 4, 0, 6, 2];
                o.count_after_every_op = true;
                o.incarnations = (1, 3);
                o.p_same_process_restart = if s % 3 == 0 { 0.05 } else { 0.0 };
                o
            },
            owns: &["c15."],
            rule: "C01/C06-style histories (peeks, offset reads, rejected appends and clean restarts interleaved) with get_topic_entry_count queried after every operation; expected = entries of successful appends - entries actually returned by consuming reads (StrictlyAtOnce across restarts; AtLeastOnce counts are not asserted after a restart); non-trivial = at least one count compared",
            trigger: count_checked,
            relabel: None,
            twin_without_nonconsuming: false,
        }),
        "C02" => Box::new(SeqScenario {
            id: "C02",
            opts: |_s| {
                let mut o = SeqOpts::base("C02", "peek");
                o.w = [25, 10, 8, 8, 5, 28, 16, 0, 0, 1];
                o.snap_around_peeks = true;
                o.ops = (5, 50);
                // "never changes what any later read returns" includes the reads after a clean restart
                o.incarnations = (1, 3);
                o.alo_p = 0.45;
                o
            },
            owns: &["c02."],
            rule: "C01 workload plus read_next(false), batch_read(checkpoint=false) and offset-addressed batch reads (offsets at 0, entry boundaries +-1, mid-payload, block multiples, beyond the end; checkpoint true and false); every peek is immediately followed by the consuming read with the same arguments; 1-3 incarnations; oracle: the same history with every non-consuming call removed, executed in fresh processes, returns identical results for all remaining operations (twin run); peek == consuming twin, model cursor and counts unchanged by non-consuming calls (seen through all later reads and counts), per-file/per-block reclamation bookkeeping identical before and after each non-consuming call (a block it marks must have been passed by the consumer before the call), offset reads return only this topic's entries (first may be a suffix) in append order; non-trivial = run contains a peek or offset read",
            trigger: has_nonconsuming,
            relabel: Some((&["c01.", "c15.", "c03.no_progress"], "c02")),
            twin_without_nonconsuming: true,
        }),
        "C06" => Box::new(SeqScenario {
            id: "C06",
            opts: |s| {
                let mut o = SeqOpts::base("C06", "restart");
                o.w = [30, 12, 18, 18, 6, 4, 2, 0, 4, 2];
                o.incarnations = (2, 5);
                o.ops = (8, 70);
                o.p_same_process_restart = if s % 2 == 0 { 0.04 } else { 0.0 };
                o.clock_jumps = true;
                o
            },
            owns: &["c06.", "any."],
            rule: "histories with 2-5 incarnations (fresh process each) and optional same-process reopen, clean shutdown = drop + exit; rejected operations, peeks and payloads up to multi-block interleaved; the simulated wall clock moves by {+1ms,+50ms,+1h,+1d,0,-1ms,-40ms,-2s,-1h,-1y} between incarnations; the reference model has no restart operation: StrictlyAtOnce must match it exactly, AtLeastOnce may redeliver but never lose or reorder; counts after reopen are asserted for StrictlyAtOnce; non-trivial = at least one reopen with data present",
            trigger: has_restart_with_data,
            relabel: Some((&["c01.", "c15.", "c03.no_progress"], "c06")),
            twin_without_nonconsuming: false,
        }),
        "C17" => Box::new(SeqScenario {
            id: "C17",
            opts: |s| {
                let mut o = SeqOpts::base("C17", "markers");
                o.w = [20, 5, 4, 4, 0, 0, 0, 60, 3, 8];
                o.ops = (3, 25);
                o.max_topics = 3;
                o.incarnations = (1, 3);
                o.p_same_process_restart = if s % 2 == 0 { 0.1 } else { 0.0 };
                o.allow_big = false;
                o.p_real = 0.02;
                o
            },
            owns: &["c17."],
            rule: "histories of append / mark_topic_clean / mark_topic_dirty / topic_is_clean / sleep over 1-3 topics with clean shutdown (drop, then process exit or same-process reopen) at any delay including immediately; the marker persister thread is scheduled by the simulator (never, once, or between every operation); oracle: last completed call wins, immediately and after every reopen; non-trivial = at least one marker query compared",
            trigger: marker_checked,
            relabel: None,
            twin_without_nonconsuming: false,
        }),
        "C16" => Box::new(DiffScenario),
        "C12" => Box::new(ReclaimScenario),
        "C13" => Box::new(MultiScenario),
        "C10" => Box::new(crate::powerloss::PowerScenario),
        "C11" => Box::new(crate::corrupt::CorruptScenario),
        "C05" => Box::new(crate::conc::ConcScenario { id: "C05" }),
        "C07" => Box::new(crate::crash::CrashScenario { mode: crate::crash::Mode::C07 }),
        "C08" => Box::new(crate::crash::CrashScenario { mode: crate::crash::Mode::C08 }),
        "C09" => Box::new(crate::crash::CrashScenario { mode: crate::crash::Mode::C09 }),
        "C04" => Box::new(C04Scenario),
        _ => return None,
    })
}

pub const ALL_IDS: &[&str] = &["C01", "C02", "C03", "C04", "C06", "C15", "C17"];

// ---------------------------------------------------------------------------
// C16: the same plan once per backend, separate processes, identical logical schedule
// ---------------------------------------------------------------------------
pub struct DiffScenario;

fn with_backend(plan: &Plan, b: &str) -> Plan {
    let mut p = plan.clone();
    for inc in p.incarnations.iter_mut() {
        inc.backend = b.into();
    }
    p
}

fn transcript(rr: &RunResult) -> Vec<(usize, u32, Res)> {
    let mut v = Vec::new();
    for (i, inc) in rr.incs.iter().enumerate() {
        for e in &inc.events {
            if e.t == "ret" {
                if let (Some(op), Some(res)) = (e.op, e.res.clone()) {
                    v.push((i, op, res));
                }
            }
        }
    }
    v
}

pub fn judge_diff(plan: &Plan, a: &RunResult, b: &RunResult) -> Vec<Finding> {
    let ops = index_ops(plan);
    let (ta, tb) = (transcript(a), transcript(b));
    let mut out = Vec::new();
    for (x, y) in ta.iter().zip(tb.iter()) {
        let same = x.0 == y.0 && x.1 == y.1 && x.2.k == y.2.k && x.2.err_kind == y.2.err_kind && x.2.entries == y.2.entries && x.2.none == y.2.none && x.2.val == y.2.val && x.2.flag == y.2.flag && x.2.map == y.2.map;
        if !same {
            let api = ops.get(&x.1).map(|o| api_name(&o.kind)).unwrap_or("?");
            out.push(
                Finding::new(
                    "c16.diff",
                    x.0,
                    x.1,
                    format!(
                        "op {} ({}) differs between backends: fd -> {} {:?} entries={:?} none={:?} val={:?}; mmap -> {} {:?} entries={:?} none={:?} val={:?}",
                        x.1, api, x.2.k, x.2.err_kind, x.2.entries.iter().take(4).map(|s| (s.0, s.2)).collect::<Vec<_>>(), x.2.none, x.2.val,
                        y.2.k, y.2.err_kind, y.2.entries.iter().take(4).map(|s| (s.0, s.2)).collect::<Vec<_>>(), y.2.none, y.2.val
                    ),
                )
                .fact("api", serde_json::json!(api))
                .fact("fd_kind", serde_json::json!(x.2.k))
                .fact("mmap_kind", serde_json::json!(y.2.k)),
            );
            return out;
        }
    }
    if ta.len() != tb.len() || a.incs.len() != b.incs.len() {
        out.push(Finding::new("c16.diff", 0, 0, format!("transcripts differ in length: fd {} returns / {} incarnations, mmap {} / {}", ta.len(), a.incs.len(), tb.len(), b.incs.len())));
    }
    for (i, (x, y)) in a.incs.iter().zip(b.incs.iter()).enumerate() {
        if x.exit != y.exit {
            out.push(Finding::new("c16.diff", i, 0, format!("incarnation {} ended differently: fd {:?}, mmap {:?}", i, x.exit, y.exit)));
            break;
        }
    }
    out
}

fn diff_opts(s: u64) -> SeqOpts {
    let mut o = SeqOpts::base("C16", "diff");
    o.w = [30, 14, 16, 18, 6, 4, 3, 3, 5, 2];
    o.incarnations = (1, 3);
    o.p_same_process_restart = if s % 3 == 0 { 0.04 } else { 0.0 };
    o.prio_sched = true;
    o.fixed_backend = Some("fd");
    o.ops = (5, 80);
    o
}

impl Scenario for DiffScenario {
    fn id(&self) -> &'static str {
        "C16"
    }
    fn rule_text(&self) -> String {
        "the same seeded plan (appends, batches, both read APIs, peeks, offset reads, counts, markers, rejected operations, clean restarts) executed once with the FD/io_uring backend and once with the mmap backend in separate processes, single client thread, background threads scheduled only when the client sleeps (identical logical schedule on both sides); io_uring set-up failure injected in 12% of the incarnations (fallback to positional writes); oracle: identical sequence of results (Ok/Err kind, entries, counts, flags); distinct = distinct plans; non-trivial = both sides completed at least 3 operations".into()
    }
    fn plan_for(&self, seed_r: u64) -> Option<Plan> {
        Some(gen_seq(seed_r, &diff_opts(seed_r)))
    }
    fn run_one(&self, seed_r: u64, env: &Env) -> Outcome {
        let plan = gen_seq(seed_r, &diff_opts(seed_r));
        let pa = with_backend(&plan, "fd");
        let pb = with_backend(&plan, "mmap");
        let ra = run_plan(&env.bins, &pa, &RunOpts::default());
        let rb = run_plan(&env.bins, &pb, &RunOpts::default());
        let mut out = Outcome::default();
        out.executions = (ra.incs.len() + rb.incs.len()) as u64;
        out.digest = history_hash(&ra) ^ history_hash(&rb).rotate_left(1);
        absorb_summary(&mut out, &ra);
        absorb_summary(&mut out, &rb);
        out.stat("sim_clock_ms", sim_clock_ms(&ra, &pa) + sim_clock_ms(&rb, &pb));
        out.stat(&format!("geometry.{}", plan.geometry), 1);
        if transcript(&ra).len() >= 3 && transcript(&rb).len() >= 3 {
            out.keys.push(crate::rng::fnv64(serde_json::to_string(&plan.incarnations.iter().map(|i| &i.phases).collect::<Vec<_>>()).unwrap().as_bytes()));
        }
        for f in judge_diff(&plan, &ra, &rb) {
            out.findings.push((plan.clone(), f));
        }
        out.sample = Some(render_sample(&plan));
        out
    }
    fn judge_plan(&self, plan: &Plan, env: &Env) -> (Vec<Finding>, u64) {
        let pa = with_backend(plan, "fd");
        let pb = with_backend(plan, "mmap");
        let ra = run_plan(&env.bins, &pa, &RunOpts::default());
        let rb = run_plan(&env.bins, &pb, &RunOpts::default());
        (judge_diff(plan, &ra, &rb), history_hash(&ra) ^ history_hash(&rb).rotate_left(1))
    }
}


// ---------------------------------------------------------------------------
// C12: reclamation. Sequential client + the reclaimer thread; at every file removal the
// simulator records which harness entries the file holds (independent scan).
// ---------------------------------------------------------------------------
pub struct ReclaimScenario;

pub fn judge_reclaim(plan: &Plan, rr: &RunResult) -> (Vec<Finding>, u64) {
    let mut m = SeqModel::new(plan);
    m.run(rr);
    let mut out: Vec<Finding> = m
        .findings
        .iter()
        .filter(|f| f.rule.starts_with("c01.") || f.rule.starts_with("c03.no_progress") || f.rule.starts_with("any."))
        .cloned()
        .map(|mut f| {
            if !f.rule.starts_with("any.") {
                f.rule = format!("c12.{}", f.rule.replace('.', "_"));
            }
            f
        })
        .collect();
    // For each model finding: had a file been deleted before the (re)open that precedes the failing
    // operation? (the known positional-cursor finding needs exactly that)
    {
        let mut removed_any = false;
        let mut reopened_after_removal = false;
        let mut ret_pos: std::collections::BTreeMap<u32, bool> = std::collections::BTreeMap::new();
        let opsx = index_ops(plan);
        for inc in rr.incs.iter() {
            for e in &inc.events {
                if e.t == "io" && e.io.as_ref().map(|io| io.kind == "Remove").unwrap_or(false) {
                    removed_any = true;
                }
                if e.t == "ret" {
                    if let Some(id) = e.op {
                        if matches!(opsx.get(&id).map(|o| &o.kind), Some(OpKind::Open { .. })) && removed_any {
                            reopened_after_removal = true;
                        }
                        ret_pos.insert(id, reopened_after_removal);
                    }
                }
            }
        }
        for f in out.iter_mut() {
            let v = ret_pos.get(&f.op).copied().unwrap_or(false);
            f.facts.insert("reopened_after_file_removal".into(), serde_json::json!(v));
        }
    }
    let mut removals = 0u64;
    // entries returned by consuming reads, with the step at which the read returned (per incarnation order)
    let ops = index_ops(plan);
    let mut consumed: std::collections::BTreeMap<u64, (usize, u64)> = std::collections::BTreeMap::new();
    for (i, inc) in rr.incs.iter().enumerate() {
        for e in &inc.events {
            if e.t == "ret" {
                if let (Some(id), Some(res)) = (e.op, e.res.as_ref()) {
                    let consuming = matches!(
                        ops.get(&id).map(|o| &o.kind),
                        Some(OpKind::ReadNext { checkpoint: true, .. }) | Some(OpKind::BatchRead { checkpoint: true, start: None, .. }) | Some(OpKind::Drain { .. })
                    );
                    if consuming && (res.k == "ok" || !res.entries.is_empty()) {
                        // a Drain makes many calls: each entry is stamped with the step at which its call returned
                        let mut stamps: Vec<u64> = Vec::new();
                        if !res.calls.is_empty() && res.calls.len() == res.call_steps.len() {
                            for (n, st) in res.calls.iter().zip(res.call_steps.iter()) {
                                for _ in 0..*n {
                                    stamps.push(*st);
                                }
                            }
                        }
                        for (k, s) in res.entries.iter().enumerate() {
                            if s.2 != 0 {
                                let st = stamps.get(k).copied().unwrap_or(e.step);
                                consumed.entry(s.2).or_insert((i, st));
                            }
                        }
                    }
                }
            }
        }
    }
    for (i, inc) in rr.incs.iter().enumerate() {
        for e in &inc.events {
            if e.t == "io" {
                if let Some(io) = &e.io {
                    if io.kind == "Remove" {
                        removals += 1;
                        let held: Vec<(u32, u64)> = e.msg.as_ref().and_then(|m| serde_json::from_str(m).ok()).unwrap_or_default();
                        // acknowledged entries only: bytes of failed operations carry ids no successful append owns
                        let mut unconsumed: Vec<(u32, u64)> = Vec::new();
                        for (t, seq) in held.iter() {
                            let opid = (*seq >> 20) as u32;
                            let acked = rr.incs.iter().any(|x| x.events.iter().any(|ev| ev.t == "ret" && ev.op == Some(opid) && ev.res.as_ref().map(|r| r.k == "ok").unwrap_or(false)));
                            if !acked {
                                continue;
                            }
                            let ok = match consumed.get(seq) {
                                Some((ci, cstep)) => *ci < i || (*ci == i && *cstep <= e.step),
                                None => false,
                            };
                            if !ok {
                                unconsumed.push((*t, *seq));
                            }
                        }
                        if !unconsumed.is_empty() {
                            // was there an earlier removal followed by a reopen (fresh process or same-process)?
                            let mut earlier_removal = false;
                            let mut reopened_after = false;
                            'scan: for (j, inc2) in rr.incs.iter().enumerate() {
                                if j > 0 && earlier_removal {
                                    reopened_after = true;
                                }
                                for e2 in &inc2.events {
                                    if j == i && e2.step >= e.step && e2.t == "io" {
                                        break 'scan;
                                    }
                                    if e2.t == "io" && e2.io.as_ref().map(|x| x.kind == "Remove").unwrap_or(false) {
                                        earlier_removal = true;
                                    }
                                    if e2.t == "ret" && earlier_removal {
                                        if let Some(id2) = e2.op {
                                            if matches!(ops.get(&id2).map(|o| &o.kind), Some(OpKind::Open { .. })) {
                                                reopened_after = true;
                                            }
                                        }
                                    }
                                }
                            }
                            out.push(
                                Finding::new(
                                    "c12.removed_unconsumed",
                                    i,
                                    0,
                                    format!("file {} is deleted at step {} while it holds {} acknowledged entries that no consuming read has returned (e.g. topic {} seq={:x}); it holds {} entries in total", io.path, e.step, unconsumed.len(), unconsumed[0].0, unconsumed[0].1, held.len()),
                                )
                                .fact("unconsumed", serde_json::json!(unconsumed.len()))
                                .fact("reopened_after_file_removal", serde_json::json!(reopened_after)),
                            );
                        }
                    }
                }
            }
        }
    }
    (out, removals)
}

impl Scenario for ReclaimScenario {
    fn id(&self) -> &'static str {
        "C12"
    }
    fn rule_text(&self) -> String {
        "scaled geometry (8 blocks per file): 1-4 topics sharing files, bursts of appends/batches that allocate several blocks (incl. exact-fit and multi-unit entries), consuming reads, peeks, repeated empty polls at exact block ends, same-process and fresh-process restarts, FsyncSchedule::Milliseconds(1) so the reclaimer ticks every simulated millisecond and completes cleanup cycles during simulated sleeps; the reclaimer is a simulated thread interleaved with the client by the seeded scheduler; oracle: at every remove_file I/O event the simulator scans the file for harness payloads independently of the engine: every acknowledged entry found must already have been returned by a consuming read; plus the reference model's no-skip rule for all reads and a final drain after the last restart; non-trivial = at least one file was deleted during the run".into()
    }
    fn plan_for(&self, seed_r: u64) -> Option<Plan> {
        Some(gen_reclaim(seed_r, "C12"))
    }
    fn run_one(&self, seed_r: u64, env: &Env) -> Outcome {
        let plan = gen_reclaim(seed_r, "C12");
        let rr = run_plan(&env.bins, &plan, &RunOpts::default());
        let mut out = Outcome::default();
        out.executions = rr.incs.len() as u64;
        out.digest = history_hash(&rr);
        absorb_summary(&mut out, &rr);
        out.stat("sim_clock_ms", sim_clock_ms(&rr, &plan));
        let (fs, removals) = judge_reclaim(&plan, &rr);
        out.stat("reach.files_removed", removals);
        if removals > 0 {
            out.keys.push(plan_shape_key(&plan, &rr));
        }
        for f in fs {
            out.findings.push((plan.clone(), f));
        }
        for inc in &rr.incs {
            if !matches!(inc.exit, Exit::Code(0) | Exit::Code(78) | Exit::Code(79)) {
                out.harness_errors.push(format!("child ended {:?} {}", inc.exit, inc.stderr.chars().take(200).collect::<String>()));
            }
        }
        out.sample = Some(render_sample(&plan));
        out
    }
    fn judge_plan(&self, plan: &Plan, env: &Env) -> (Vec<Finding>, u64) {
        let rr = run_plan(&env.bins, plan, &RunOpts::default());
        (judge_reclaim(plan, &rr).0, history_hash(&rr))
    }
}

// ---------------------------------------------------------------------------
// C13: several instances in one process; oracle = each instance's solo run (real code, same plan)
// ---------------------------------------------------------------------------
pub struct MultiScenario;

// (data dir, key): pairwise either the directories differ or the keys sanitize differently - including keys that
// consist of disallowed characters only (directory name = "ns_" + hash of the key) and keys that differ in case
const INST_SPECS: &[(&str, &str)] = &[
    ("d", "a"),
    ("d", "b"),
    ("d2", "a"),
    ("d", "a.b"),
    ("d", "t-1"),
    ("d2", "\u{fc}ber"),
    ("d3", "a b"),
    ("d", "\u{65e5}\u{672c}"),
    ("d", "\u{4e2d}\u{56fd}"),
    ("d", "///"),
    ("d", "***"),
    ("d", "A"),
    ("d", "_"),
    ("d", "__"),
];

pub fn gen_multi(seed: u64) -> Plan {
    let mut rng = crate::rng::Rng::new(crate::rng::mix(seed, 0xC13));
    let n_inst = rng.range(2, 3) as usize;
    let mut specs: Vec<(&str, &str)> = INST_SPECS.to_vec();
    let mut chosen = Vec::new();
    for _ in 0..n_inst {
        let i = rng.below(specs.len() as u64) as usize;
        chosen.push(specs.remove(i));
    }
    // one reclaim-style stream per instance, merged preserving per-instance order
    let mut streams: Vec<Vec<Vec<Op>>> = Vec::new(); // [inst][incarnation] -> ops
    let mut topics: Vec<String> = Vec::new();
    let n_inc = if rng.chance(0.25) { 2 } else { 1 };
    let mut sched = None;
    let mut backend = String::new();
    let mut clock = 0;
    for (i, (dir, key)) in chosen.iter().enumerate() {
        let mut p = gen_reclaim(crate::rng::mix(seed, 100 + i as u64), "C13");
        // align incarnation count
        while p.incarnations.len() > n_inc {
            p.incarnations.pop();
        }
        while p.incarnations.len() < n_inc {
            let last = p.incarnations.last().unwrap().clone();
            p.incarnations.push(last);
        }
        let base_topic = topics.len() as u32;
        topics.extend(p.topics.iter().cloned());
        if sched.is_none() {
            sched = Some(p.incarnations.iter().map(|x| x.sched.clone()).collect::<Vec<_>>());
            backend = p.incarnations[0].backend.clone();
            clock = p.incarnations[0].clock_start_ms;
        }
        let mut per_inc = Vec::new();
        for (k, inc) in p.incarnations.iter().enumerate() {
            let mut ops: Vec<Op> = inc.phases[0].threads[0].clone();
            // the last generated incarnation ends with drains; earlier ones with close; keep as is
            for o in ops.iter_mut() {
                retarget(&mut o.kind, i as u32, base_topic, dir, key);
            }
            // shorten: multi-instance runs multiply the work
            if ops.len() > 48 {
                let tail: Vec<Op> = ops.iter().rev().take(8).rev().cloned().collect();
                ops.truncate(40);
                ops.extend(tail.into_iter().filter(|o| matches!(o.kind, OpKind::Drain { .. } | OpKind::Close { .. } | OpKind::Sleep { .. })));
            }
            let _ = k;
            // every live (and every closed) instance keeps a flusher ticking each simulated millisecond:
            // bound the simulated sleeping so the step budget measures the engine, not idle ticking
            let mut sleeps = 0;
            ops.retain(|o| {
                if matches!(o.kind, OpKind::Sleep { .. }) {
                    sleeps += 1;
                    sleeps <= 3
                } else {
                    true
                }
            });
            per_inc.push(ops);
        }
        streams.push(per_inc);
    }
    let mut ids = IdGen(0);
    let mut incarnations = Vec::new();
    for k in 0..n_inc {
        let mut cursors = vec![0usize; n_inst];
        let mut merged = Vec::new();
        loop {
            let live: Vec<usize> = (0..n_inst).filter(|i| cursors[*i] < streams[*i][k].len()).collect();
            if live.is_empty() {
                break;
            }
            let i = live[rng.below(live.len() as u64) as usize];
            // take a short run from this instance
            let run = rng.range(1, 6) as usize;
            for _ in 0..run {
                if cursors[i] < streams[i][k].len() {
                    let mut o = streams[i][k][cursors[i]].clone();
                    o.id = ids.next();
                    merged.push(o);
                    cursors[i] += 1;
                }
            }
        }
        let mut sc = sched.as_ref().unwrap()[k].clone();
        sc.step_budget = 30_000_000;
        incarnations.push(Incarnation {
            sched: sc,
            clock_start_ms: clock,
            clock_delta_ms: if k == 0 { None } else { Some(rng.range(1, 5000) as i64) },
            backend: backend.clone(),
            phases: vec![Phase { threads: vec![merged] }],
            faults: vec![],
            buggify: vec![],
            trace_io: false,
        });
    }
    Plan { v: 1, property: "C13".into(), profile: "multi".into(), seed, geometry: "small".into(), topics, incarnations }
}

fn retarget(k: &mut OpKind, inst_new: u32, base_topic: u32, dir_new: &str, key_new: &str) {
    use OpKind::*;
    match k {
        Open { inst, key, dir, via_env, .. } => {
            *inst = inst_new;
            *key = Some(key_new.to_string());
            *dir = dir_new.to_string();
            // a third of the instances get their directory through the environment variable
            *via_env = crate::rng::fnv64(format!("{}|{}", dir_new, key_new).as_bytes()) % 3 == 0;
        }
        Close { inst } | Counts { inst } => *inst = inst_new,
        Append { inst, topic, .. }
        | BatchAppend { inst, topic, .. }
        | BatchAlias { inst, topic, .. }
        | ReadNext { inst, topic, .. }
        | BatchRead { inst, topic, .. }
        | Drain { inst, topic, .. }
        | Count { inst, topic }
        | MarkClean { inst, topic }
        | MarkDirty { inst, topic }
        | IsClean { inst, topic } => {
            *inst = inst_new;
            *topic += base_topic;
        }
        ListDir { dir } => {
            // sanitised directory names are not needed by the oracle
            *dir = dir_new.to_string();
        }
        _ => {}
    }
}

fn solo_plan(plan: &Plan, inst: u32) -> Plan {
    let mut p = plan.clone();
    for inc in p.incarnations.iter_mut() {
        for ph in inc.phases.iter_mut() {
            for th in ph.threads.iter_mut() {
                th.retain(|o| match o.kind.inst() {
                    Some(i) => i == inst,
                    None => true,
                });
            }
        }
    }
    p
}

fn results_by_op(rr: &RunResult) -> BTreeMap<u32, Res> {
    let mut m = BTreeMap::new();
    for inc in &rr.incs {
        for e in &inc.events {
            if e.t == "ret" {
                if let (Some(op), Some(res)) = (e.op, e.res.clone()) {
                    m.insert(op, res);
                }
            }
        }
    }
    m
}

pub fn judge_multi(plan: &Plan, together: &RunResult, solos: &[(u32, RunResult)]) -> Vec<Finding> {
    let ops = index_ops(plan);
    let mut out = Vec::new();
    for (i, inc) in together.incs.iter().enumerate() {
        if let Exit::Code(c @ (78 | 79)) = inc.exit {
            let msg = inc.events.iter().rev().find(|e| e.t == "deadlock" || e.t == "nonterm").and_then(|e| e.msg.clone()).unwrap_or_default();
            out.push(Finding::new(if c == 78 { "c13.deadlock" } else { "c13.nonterm" }, i, 0, msg));
            return out;
        }
    }
    if solos.iter().any(|(_, s)| s.incs.iter().any(|i| !matches!(i.exit, Exit::Code(0)))) {
        return out;
    }
    let all = results_by_op(together);
    for (inst, solo) in solos {
        let s = results_by_op(solo);
        for (id, op) in ops.iter() {
            if op.kind.inst() != Some(*inst) {
                continue;
            }
            let (a, b) = (all.get(id), s.get(id));
            let same = match (a, b) {
                (Some(x), Some(y)) => x.k == y.k && x.err_kind == y.err_kind && x.entries == y.entries && x.none == y.none && x.val == y.val && x.flag == y.flag && x.map == y.map,
                (None, None) => true,
                _ => false,
            };
            if !same {
                let api = api_name(&op.kind);
                // had the shared reclaimer deleted a file before this operation returned?
                // (in either execution: the solo run is real code with the same single-instance defects,
                // and the reclaimer's timing differs between the two)
                let mut removal_before = false;
                for run in [together, solo] {
                    'scan: for inc in run.incs.iter() {
                        for e in &inc.events {
                            if e.t == "io" && e.io.as_ref().map(|io| io.kind == "Remove").unwrap_or(false) {
                                removal_before = true;
                            }
                            if e.t == "ret" && e.op == Some(*id) {
                                break 'scan;
                            }
                        }
                    }
                }
                out.push(
                    Finding::new(
                        "c13.differs_from_solo",
                        0,
                        *id,
                        format!(
                            "instance {} op {} ({}): with the other instances alive -> {:?}; alone -> {:?}",
                            inst,
                            id,
                            short_op(op, plan),
                            a.map(|r| (r.k.clone(), r.err_kind.clone(), r.entries.len(), r.none, r.val, r.flag)),
                            b.map(|r| (r.k.clone(), r.err_kind.clone(), r.entries.len(), r.none, r.val, r.flag))
                        ),
                    )
                    .fact("api", serde_json::json!(api))
                    .fact("file_removed_before", serde_json::json!(removal_before)),
                );
                break;
            }
        }
    }
    // a file removed from one instance's directory holds only that instance's, consumed, entries
    let mut consumed: BTreeMap<u64, (usize, u64)> = BTreeMap::new();
    for (i, inc) in together.incs.iter().enumerate() {
        for e in &inc.events {
            if e.t == "ret" {
                if let (Some(id), Some(res)) = (e.op, e.res.as_ref()) {
                    let consuming = matches!(ops.get(&id).map(|o| &o.kind), Some(OpKind::ReadNext { checkpoint: true, .. }) | Some(OpKind::BatchRead { checkpoint: true, start: None, .. }) | Some(OpKind::Drain { .. }));
                    if consuming {
                        let mut stamps = Vec::new();
                        if res.calls.len() == res.call_steps.len() {
                            for (n, st) in res.calls.iter().zip(res.call_steps.iter()) {
                                for _ in 0..*n {
                                    stamps.push(*st);
                                }
                            }
                        }
                        for (k, s) in res.entries.iter().enumerate() {
                            if s.2 != 0 {
                                consumed.entry(s.2).or_insert((i, stamps.get(k).copied().unwrap_or(e.step)));
                            }
                        }
                    }
                }
            }
        }
    }
    for (i, inc) in together.incs.iter().enumerate() {
        for e in &inc.events {
            if e.t == "io" && e.io.as_ref().map(|io| io.kind == "Remove").unwrap_or(false) {
                let held: Vec<(u32, u64)> = e.msg.as_ref().and_then(|m| serde_json::from_str(m).ok()).unwrap_or_default();
                let bad: Vec<&(u32, u64)> = held
                    .iter()
                    .filter(|(_, seq)| {
                        let opid = (*seq >> 20) as u32;
                        let acked = all.get(&opid).map(|r| r.k == "ok").unwrap_or(false);
                        let ok = consumed.get(seq).map(|(ci, cs)| *ci < i || (*ci == i && *cs <= e.step)).unwrap_or(false);
                        acked && !ok
                    })
                    .collect();
                if !bad.is_empty() {
                    out.push(
                        Finding::new(
                            "c13.removed_unconsumed",
                            i,
                            0,
                            format!("file {} is deleted while it holds {} acknowledged, unconsumed entries (e.g. seq={:x}) although several instances are alive", e.io.as_ref().unwrap().path, bad.len(), bad[0].1),
                        )
                        .fact("unconsumed", serde_json::json!(bad.len())),
                    );
                }
            }
        }
    }
    out
}

impl Scenario for MultiScenario {
    fn id(&self) -> &'static str {
        "C13"
    }
    fn rule_text(&self) -> String {
        "2-3 live instances in one process (keys that sanitize differently - incl. keys of disallowed characters only and case-different keys - and/or different data directories; a third opened through WALRUS_DATA_DIR and the *_for_key constructors), each driven by a reclaim-style stream (bursts that fill files, consuming reads, peeks, empty polls, simulated sleeps that let the shared reclaimer complete cleanup cycles, close/reopen of one instance while the others live), operations of the instances interleaved by seed; oracle: differential against real code - each instance's projected operation sequence is re-run alone in fresh processes with the same plan and every result must be identical op by op; plus, at every remove_file event, the deleted file must hold only consumed entries; distinct = (plan, schedule hash); non-trivial = all instances completed operations".into()
    }
    fn plan_for(&self, seed_r: u64) -> Option<Plan> {
        Some(gen_multi(seed_r))
    }
    fn run_one(&self, seed_r: u64, env: &Env) -> Outcome {
        let plan = gen_multi(seed_r);
        let mut out = Outcome::default();
        let together = run_plan(&env.bins, &plan, &RunOpts::default());
        out.executions += together.incs.len() as u64;
        out.digest = history_hash(&together);
        absorb_summary(&mut out, &together);
        out.stat("sim_clock_ms", sim_clock_ms(&together, &plan));
        let insts: BTreeSet<u32> = index_ops(&plan).values().filter_map(|o| o.kind.inst()).collect();
        let mut solos = Vec::new();
        for i in insts.iter() {
            let sp = solo_plan(&plan, *i);
            let r = run_plan(&env.bins, &sp, &RunOpts::default());
            out.executions += r.incs.len() as u64;
            out.digest = crate::rng::fnv_step(out.digest, history_hash(&r));
            solos.push((*i, r));
        }
        let removals = together.incs.iter().map(|i| i.events.iter().filter(|e| e.t == "io" && e.io.as_ref().map(|x| x.kind == "Remove").unwrap_or(false)).count() as u64).sum::<u64>();
        out.stat("reach.files_removed", removals);
        out.stat(&format!("reach.instances_{}", insts.len()), 1);
        if together.incs.len() == plan.incarnations.len() {
            out.keys.push(plan_shape_key(&plan, &together));
        }
        for f in judge_multi(&plan, &together, &solos) {
            out.findings.push((plan.clone(), f));
        }
        for inc in together.incs.iter().chain(solos.iter().flat_map(|s| s.1.incs.iter())) {
            if !matches!(inc.exit, Exit::Code(0) | Exit::Code(78) | Exit::Code(79)) {
                out.harness_errors.push(format!("child ended {:?} {}", inc.exit, inc.stderr.chars().take(200).collect::<String>()));
            }
        }
        out.sample = Some(render_sample(&plan));
        out
    }
    fn judge_plan(&self, plan: &Plan, env: &Env) -> (Vec<Finding>, u64) {
        let together = run_plan(&env.bins, plan, &RunOpts::default());
        let insts: BTreeSet<u32> = index_ops(plan).values().filter_map(|o| o.kind.inst()).collect();
        let mut solos = Vec::new();
        for i in insts.iter() {
            solos.push((*i, run_plan(&env.bins, &solo_plan(plan, *i), &RunOpts::default())));
        }
        (judge_multi(plan, &together, &solos), history_hash(&together))
    }
}

// ---------------------------------------------------------------------------
// C04 (composite): rejected operations | injected I/O failures | concurrent readers vs batches
// ---------------------------------------------------------------------------
pub struct C04Scenario;

fn c04_reject() -> SeqScenario {
    SeqScenario {
        id: "C04",
        opts: |_s| {
            let mut o = SeqOpts::base("C04", "reject");
            o.w = [25, 12, 12, 12, 4, 0, 0, 0, 25, 1];
            o.ops = (5, 40);
            o.incarnations = (1, 2);
            o.alo_p = 0.0;
            o
        },
        owns: &["c04."],
        rule: "",
        trigger: has_failed_op,
        relabel: Some((&["c01.", "c15.", "c03.no_progress", "c06."], "c04")),
        twin_without_nonconsuming: false,
    }
}

fn iofault_opts(_s: u64) -> SeqOpts {
    let mut o = SeqOpts::base("C04", "iofault");
    o.w = [30, 18, 14, 14, 4, 0, 0, 0, 0, 1];
    o.ops = (6, 36);
    o.incarnations = (2, 2);
    o.alo_p = 0.0;
    o.p_real = 0.0;
    o
}

fn relabel_c04(fs: Vec<Finding>) -> Vec<Finding> {
    fs.into_iter()
        .filter_map(|mut f| {
            if ["c01.", "c15.", "c03.no_progress", "c06."].iter().any(|p| f.rule.starts_with(p)) {
                f.rule = format!("c04.{}", f.rule.replace('.', "_"));
                Some(f)
            } else if f.rule.starts_with("c04.") {
                Some(f)
            } else if f.rule == "any.nonterm" || f.rule == "any.deadlock" {
                // only reported by the iofault profile, and only if the injected failure fired
                // (the callers drop it otherwise): a failed append must not leave the engine in a
                // state in which later operations never return
                f.rule = "c04.hang_after_fault".into();
                Some(f)
            } else {
                None
            }
        })
        .collect()
}

/// Facts about the injected failure of an iofault run (same in search and replay).
fn iofault_facts(plan: &Plan, rr: &RunResult) -> Vec<(&'static str, serde_json::Value)> {
    let ops = index_ops(plan);
    let fault = plan.incarnations[0].faults.first();
    let kind = rr.incs.first().and_then(|i| i.events.iter().find(|e| e.t == "fault")).and_then(|e| e.msg.clone()).unwrap_or_default();
    let fault_kind = ["Create", "SetLen", "FileFsync", "DirFsync", "Flush", "CreateDir", "Store"].iter().find(|k| kind.ends_with(*k)).copied().unwrap_or("UringSubmit");
    let name = match fault.map(|f| &f.act) {
        Some(Act::UringFailSubmit { .. }) => "uring_fail_submit",
        Some(Act::UringCqe { res, .. }) if *res < 0 => "uring_cqe_error",
        Some(Act::UringCqe { .. }) => "uring_cqe_short",
        Some(Act::Fail { .. }) if fault_kind == "Store" => "fail_store",
        Some(Act::Fail { .. }) => "fail_io",
        _ => "none",
    };
    let (faulted_op, op_id) = match fault.map(|f| &f.sel) {
        Some(Sel::InOp { op, .. }) => (ops.get(op).map(|o| api_name(&o.kind)).unwrap_or("?"), *op),
        _ => ("?", 0),
    };
    let op_failed = rr.incs.first().map(|i| i.events.iter().any(|e| e.t == "ret" && e.op == Some(op_id) && e.res.as_ref().map(|r| r.k != "ok").unwrap_or(false))).unwrap_or(false);
    // did the planning phase of the failing batch seal the writer's block and switch to a new one?
    let batch_switched_block = rr.incs.first().map(|i| i.events.iter().any(|e| e.t == "probe" && e.op == Some(op_id) && e.msg.as_deref() == Some("batch_plan_switches_block"))).unwrap_or(false);
    // sync-type failures leave already written data in place; the others are failures of the writes themselves
    let failure_class = match (name, fault_kind) {
        ("fail_io", "Flush") | ("fail_io", "FileFsync") | ("fail_io", "DirFsync") => "sync",
        ("fail_io", _) => "allocation",
        _ => "write",
    };
    vec![
        ("fault", serde_json::json!(name)),
        ("batch_switched_block", serde_json::json!(batch_switched_block)),
        ("failure_class", serde_json::json!(failure_class)),
        ("fault_kind", serde_json::json!(fault_kind)),
        ("faulted_op", serde_json::json!(faulted_op)),
        ("op_failed", serde_json::json!(op_failed)),
        ("backend", serde_json::json!(plan.incarnations[0].backend)),
    ]
}

impl C04Scenario {
    fn run_iofault(&self, seed_r: u64, env: &Env) -> Outcome {
        let mut out = Outcome::default();
        let base = gen_seq(seed_r, &iofault_opts(seed_r));
        let mut rng = crate::rng::Rng::new(crate::rng::mix(seed_r, 0x10FA));
        let rr0 = run_plan(&env.bins, &base, &RunOpts::default());
        out.executions += rr0.incs.len() as u64;
        out.digest = history_hash(&rr0);
        if rr0.incs.len() != base.incarnations.len() {
            return out;
        }
        let ops = index_ops(&base);
        let base_steps = rr0.incs[0].events.iter().map(|e| e.step).max().unwrap_or(0);
        // I/O events performed by append operations of the first incarnation
        let mut per_op: BTreeMap<(u32, u32), u32> = BTreeMap::new();
        let mut points: Vec<(u32, u32, String, u64)> = Vec::new(); // (op, nth, kind, len)
        for e in rr0.incs[0].events.iter().filter(|e| e.t == "io") {
            let (Some(op), Some(io)) = (e.op, e.io.as_ref()) else { continue };
            let c = per_op.entry((op, e.th)).or_insert(0);
            *c += 1;
            if matches!(ops.get(&op).map(|o| &o.kind), Some(OpKind::Append { .. }) | Some(OpKind::BatchAppend { .. })) {
                points.push((op, *c, io.kind.clone(), io.len));
            }
        }
        let backend = base.incarnations[0].backend.clone();
        let cap = if env.thorough { 64 } else { 12 };
        while points.len() > cap {
            let i = rng.below(points.len() as u64) as usize;
            points.remove(i);
        }
        let mut sampled = false;
        for (op, nth, kind, len) in points {
            let mut acts: Vec<(Act, &str)> = Vec::new();
            match kind.as_str() {
                "UringSubmit" => {
                    acts.push((Act::UringFailSubmit { errno: 5 }, "uring_fail_submit"));
                    let idx = rng.below(len.max(1));
                    acts.push((Act::UringCqe { idx, res: -5 }, "uring_cqe_error"));
                    acts.push((Act::UringCqe { idx, res: 100 }, "uring_cqe_short"));
                }
                "Store" => {
                    if backend == "fd" {
                        acts.push((Act::Fail { errno: 5 }, "fail_store"));
                    }
                }
                "Create" | "SetLen" | "FileFsync" | "DirFsync" | "Flush" | "CreateDir" => {
                    acts.push((Act::Fail { errno: *rng.pick(&[5, 28]) }, "fail_io"));
                }
                _ => {}
            }
            for (act, name) in acts {
                if std::time::Instant::now() >= env.deadline {
                    out.deadline_cut = true;
                    return out;
                }
                let mut plan = base.clone();
                plan.incarnations[0].faults = vec![Fault { sel: Sel::InOp { op, nth }, act }];
                // what a client does after a failed batch: it retries - the whole batch, a prefix of it, or its
                // first entry alone (the same sizes land on the same offsets the failed attempt used)
                if let Some(OpKind::BatchAppend { inst, topic, lens }) = ops.get(&op).map(|o| o.kind.clone()) {
                    if lens.len() >= 2 && rng.chance(0.6) {
                        let next_id = ops.keys().max().copied().unwrap_or(0) + 1;
                        let retry = match rng.below(3) {
                            0 => OpKind::Append { inst, topic, len: lens[0] },
                            1 => OpKind::BatchAppend { inst, topic, lens: lens[..rng.range(1, lens.len() as u64) as usize].to_vec() },
                            _ => OpKind::BatchAppend { inst, topic, lens: lens.clone() },
                        };
                        'ins: for ph in plan.incarnations[0].phases.iter_mut() {
                            for th in ph.threads.iter_mut() {
                                if let Some(pos) = th.iter().position(|o| o.id == op) {
                                    th.insert(pos + 1, Op { id: next_id, kind: retry });
                                    out.stat("reach.retry_after_faulted_batch", 1);
                                    break 'ins;
                                }
                            }
                        }
                    }
                }
                // the fault-free run took base_steps; a run that needs far more than that is
                // spinning, and the default budget of 3M steps costs half a minute of wall clock
                plan.incarnations[0].sched.step_budget = (base_steps * 40).max(200_000);
                let rr = run_plan(&env.bins, &plan, &RunOpts::default());
                out.executions += rr.incs.len() as u64;
                out.digest = crate::rng::fnv_step(out.digest, history_hash(&rr));
                absorb_summary(&mut out, &rr);
                out.stat("sim_clock_ms", sim_clock_ms(&rr, &plan));
                let fired = rr.incs[0].events.iter().any(|e| e.t == "fault");
                if fired {
                    out.keys.push(crate::rng::fnv64(format!("{}:{}:{}:{}", seed_r, op, nth, name).as_bytes()));
                    out.stat(&format!("reach.fault_at_{}", kind), 1);
                }
                let failed_op = rr.incs[0].events.iter().any(|e| e.t == "ret" && e.op == Some(op) && e.res.as_ref().map(|r| r.k != "ok").unwrap_or(false));
                if failed_op {
                    out.stat("reach.append_failed_after_fault", 1);
                }
                let (fs, _) = judge_seq(&plan, &rr);
                let facts = iofault_facts(&plan, &rr);
                for f in relabel_c04(fs) {
                    if f.rule == "c04.hang_after_fault" && !fired {
                        continue;
                    }
                    let mut f = f;
                    let after_restart = f.inc > 0;
                    f = f.fact("after_restart", serde_json::json!(after_restart));
                    for (k, v) in facts.iter() {
                        f = f.fact(k, v.clone());
                    }
                    out.findings.push((plan.clone(), f));
                }
                let _ = name;
                if !sampled && fired {
                    let mut s = render_sample(&plan);
                    s["profile"] = serde_json::json!("iofault");
                    out.sample = Some(s);
                    sampled = true;
                }
            }
        }
        out
    }
}

impl Scenario for C04Scenario {
    fn id(&self) -> &'static str {
        "C04"
    }
    fn level(&self) -> &'static str {
        "fault_enumeration"
    }
    fn rule_text(&self) -> String {
        "three profiles chosen by seed. reject: histories in which every rejection cause (over 2000 entries, over the byte cap, oversized entry alone or inside a batch, topic name too long for the header, empty batch) is interleaved with successful operations, read back in the same process and after a clean restart. iofault: a workload is run fault-free to number the I/O events of its appends, then re-run with one injected failure per run at sampled events: failed directory/file creation, set_len, fsync/msync, directory fsync, failed io_uring submission, failed or short io_uring completion, failed pwrite; in 60% of the variants the client retries the failed batch (whole, a prefix, or its first entry); the rest of the workload and a restart follow. conc: concurrent readers polling while batches are appended (see C05's workload). oracle: an operation that returned an error leaves the reference model untouched and all later reads, counts and the reads after restart agree with the model; a reader never observes part of a batch; distinct = (plan, fault point, fault kind); non-trivial = an operation failed or a fault fired or client operations overlapped".into()
    }
    fn plan_for(&self, seed_r: u64) -> Option<Plan> {
        match seed_r % 4 {
            0 | 1 => c04_reject().plan_for(seed_r),
            2 => Some(gen_seq(seed_r, &iofault_opts(seed_r))),
            _ => Some(crate::conc::gen_conc(seed_r, "C04")),
        }
    }
    fn run_one(&self, seed_r: u64, env: &Env) -> Outcome {
        match seed_r % 4 {
            0 | 1 => {
                let mut o = c04_reject().run_one(seed_r, env);
                o.stat("profile.reject", 1);
                o
            }
            2 => {
                let mut o = self.run_iofault(seed_r, env);
                o.stat("profile.iofault", 1);
                o
            }
            _ => {
                let mut o = crate::conc::ConcScenario { id: "C04" }.run_one(seed_r, env);
                o.stat("profile.conc", 1);
                o
            }
        }
    }
    fn judge_plan(&self, plan: &Plan, env: &Env) -> (Vec<Finding>, u64) {
        match plan.profile.as_str() {
            "conc" => crate::conc::ConcScenario { id: "C04" }.judge_plan(plan, env),
            "reject" => c04_reject().judge_plan(plan, env),
            _ => {
                let rr = run_plan(&env.bins, plan, &RunOpts::default());
                let (fs, _) = judge_seq(plan, &rr);
                let facts = iofault_facts(plan, &rr);
                (
                    relabel_c04(fs)
                        .into_iter()
                        .filter(|f| f.rule != "c04.hang_after_fault" || rr.incs.first().map(|i| i.events.iter().any(|e| e.t == "fault")).unwrap_or(false))
                        .map(|mut f| {
                            let after_restart = f.inc > 0;
                            f = f.fact("after_restart", serde_json::json!(after_restart));
                            for (k, v) in facts.iter() {
                                f = f.fact(k, v.clone());
                            }
                            f
                        })
                        .collect(),
                    history_hash(&rr),
                )
            }
        }
    }
}

// ---------------------------------------------------------------------------
// C15 (composite): sequential histories with a count after every operation | quiescent points of concurrent histories
// ---------------------------------------------------------------------------
pub struct C15Scenario;

fn c15_seq() -> Box<dyn Scenario> {
    scenario("C15seq").unwrap()
}

impl Scenario for C15Scenario {
    fn id(&self) -> &'static str {
        "C15"
    }
    fn rule_text(&self) -> String {
        format!("two profiles chosen by seed (4 of 5 runs sequential, 1 of 5 concurrent). sequential: {} concurrent: C05's workload (2-4 client threads of appends, batches - concurrent batches on one topic are refused with WouldBlock - and consuming reads under the seeded scheduler) with get_topic_entry_count asked for every topic at each quiescent point: after the single-threaded prologue, after all client threads were joined and before anything is drained, and after each final drain; expected = entries of appends that returned success - entries returned by consuming reads (same process lifetime, StrictlyAtOnce and AtLeastOnce)", c15_seq().rule_text())
    }
    fn plan_for(&self, seed_r: u64) -> Option<Plan> {
        if seed_r % 5 == 4 {
            crate::conc::ConcCountsScenario.plan_for(seed_r)
        } else {
            c15_seq().plan_for(seed_r)
        }
    }
    fn run_one(&self, seed_r: u64, env: &Env) -> Outcome {
        if seed_r % 5 == 4 {
            let mut o = crate::conc::ConcCountsScenario.run_one(seed_r, env);
            o.stat("profile.conc-counts", 1);
            o
        } else {
            let mut o = c15_seq().run_one(seed_r, env);
            o.stat("profile.counts", 1);
            o
        }
    }
    fn judge_plan(&self, plan: &Plan, env: &Env) -> (Vec<Finding>, u64) {
        if plan.profile == "conc-counts" {
            crate::conc::ConcCountsScenario.judge_plan(plan, env)
        } else {
            c15_seq().judge_plan(plan, env)
        }
    }
}
