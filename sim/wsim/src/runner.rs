//! Parent side: execute a plan (one child process per incarnation) and collect the history.
use crate::plan::*;
use std::io::Read;
use std::path::{Path, PathBuf};
use std::process::{Command, Stdio};
use std::sync::atomic::{AtomicU64, Ordering};
use std::time::{Duration, Instant};

#[derive(Clone, Debug)]
pub struct Bins {
    pub small: PathBuf,
    pub real: PathBuf,
    pub asan: Option<PathBuf>,
}

#[derive(Clone, Debug, PartialEq)]
pub enum Exit {
    Code(i32),
    Signal(i32),
    Watchdog,
}

#[derive(Clone, Debug)]
pub struct IncResult {
    pub exit: Exit,
    pub events: Vec<Ev>,
    pub stderr: String,
}

#[derive(Clone, Debug)]
pub struct RunResult {
    pub incs: Vec<IncResult>,
    pub dir: PathBuf,
    pub wall_ms: u64,
}

static RUN_CTR: AtomicU64 = AtomicU64::new(0);

pub fn scratch_root() -> PathBuf {
    PathBuf::from(std::env::var("WSIM_SCRATCH").unwrap_or_else(|_| "/dev/shm/wsim".into()))
}

pub fn new_run_dir() -> PathBuf {
    let n = RUN_CTR.fetch_add(1, Ordering::SeqCst);
    let d = scratch_root().join(format!("{}-{}", std::process::id(), n));
    let _ = std::fs::remove_dir_all(&d);
    std::fs::create_dir_all(&d).expect("scratch dir");
    d
}

/// Remove scratch directories of dead parents.
pub fn sweep_stale() {
    if let Ok(rd) = std::fs::read_dir(scratch_root()) {
        for e in rd.flatten() {
            let name = e.file_name().to_string_lossy().into_owned();
            if let Some(pid) = name.split('-').next().and_then(|p| p.parse::<i32>().ok()) {
                let alive = unsafe { libc::kill(pid, 0) } == 0;
                if !alive {
                    let _ = std::fs::remove_dir_all(e.path());
                }
            }
        }
    }
}

pub fn read_history(path: &Path) -> Vec<Ev> {
    let mut out = Vec::new();
    if let Ok(s) = std::fs::read_to_string(path) {
        for line in s.lines() {
            if line.is_empty() {
                continue;
            }
            match serde_json::from_str::<Ev>(line) {
                Ok(e) => out.push(e),
                Err(_) => out.push(Ev { t: "garbled".into(), msg: Some(line.to_string()), ..Default::default() }),
            }
        }
    }
    out
}

fn wait_child(mut child: std::process::Child, limit: Duration) -> (Exit, String) {
    let start = Instant::now();
    loop {
        match child.try_wait() {
            Ok(Some(st)) => {
                let mut err = String::new();
                if let Some(mut e) = child.stderr.take() {
                    let _ = e.read_to_string(&mut err);
                }
                use std::os::unix::process::ExitStatusExt;
                let exit = if let Some(c) = st.code() {
                    Exit::Code(c)
                } else {
                    Exit::Signal(st.signal().unwrap_or(0))
                };
                return (exit, err);
            }
            Ok(None) => {
                if start.elapsed() > limit {
                    let _ = child.kill();
                    let _ = child.wait();
                    return (Exit::Watchdog, String::new());
                }
                std::thread::sleep(Duration::from_micros(300));
            }
            Err(_) => return (Exit::Watchdog, String::new()),
        }
    }
}

pub struct RunOpts {
    pub keep_dir: bool,
    pub watchdog: Duration,
    /// stop after the first incarnation that did not end with exit 0 / 77
    pub stop_on_abnormal: bool,
    pub use_asan: bool,
}

impl Default for RunOpts {
    fn default() -> Self {
        RunOpts { keep_dir: false, watchdog: Duration::from_secs(60), stop_on_abnormal: true, use_asan: false }
    }
}

/// Execute incarnation `i` of the plan stored in `dir/plan.json`.
pub fn end_clock_ms(inc: &IncResult) -> Option<u64> {
    for e in inc.events.iter().rev() {
        if e.t == "summary" {
            return e.msg.as_ref().and_then(|m| serde_json::from_str::<serde_json::Value>(m).ok()).and_then(|v| v["clock_ms"].as_u64());
        }
    }
    None
}

pub fn run_incarnation(bins: &Bins, plan: &Plan, dir: &Path, i: usize, opts: &RunOpts, clock: Option<u64>) -> IncResult {
    let hist = dir.join("history.jsonl");
    let _ = std::fs::remove_file(&hist);
    let bin = if opts.use_asan && bins.asan.is_some() {
        bins.asan.as_ref().unwrap()
    } else if plan.geometry == "real" {
        &bins.real
    } else {
        &bins.small
    };
    let child = Command::new(bin)
        .arg("child")
        .arg("plan.json")
        .arg(i.to_string())
        .arg(clock.map(|c| c.to_string()).unwrap_or_else(|| "-".into()))
        .current_dir(dir)
        .env("WALRUS_QUIET", "1")
        .env_remove("WALRUS_DATA_DIR")
        .env_remove("WALRUS_INSTANCE_KEY")
        .stdin(Stdio::null())
        .stdout(Stdio::null())
        .stderr(Stdio::piped())
        .spawn();
    let (exit, stderr) = match child {
        Ok(c) => wait_child(c, opts.watchdog),
        Err(e) => (Exit::Code(2), format!("spawn failed: {}", e)),
    };
    let events = read_history(&hist);
    IncResult { exit, events, stderr }
}

pub fn run_plan(bins: &Bins, plan: &Plan, opts: &RunOpts) -> RunResult {
    let t0 = Instant::now();
    let dir = new_run_dir();
    std::fs::write(dir.join("plan.json"), serde_json::to_vec(plan).unwrap()).expect("plan");
    let mut incs = Vec::new();
    let mut prev_end: Option<u64> = None;
    for i in 0..plan.incarnations.len() {
        let clock = match (plan.incarnations[i].clock_delta_ms, prev_end) {
            (Some(d), Some(pe)) => Some((pe as i64 + d).max(1_000_000) as u64),
            _ => None,
        };
        let r = run_incarnation(bins, plan, &dir, i, opts, clock);
        prev_end = end_clock_ms(&r).or(clock).or(Some(plan.incarnations[i].clock_start_ms));
        let abnormal = !matches!(r.exit, Exit::Code(0) | Exit::Code(77));
        incs.push(r);
        if abnormal && opts.stop_on_abnormal {
            break;
        }
    }
    if !opts.keep_dir {
        let _ = std::fs::remove_dir_all(&dir);
    }
    RunResult { incs, dir, wall_ms: t0.elapsed().as_millis() as u64 }
}

/// Compact fingerprint of everything a run observed (for the determinism self-check).
pub fn history_hash(r: &RunResult) -> u64 {
    let mut h: u64 = 0xcbf29ce484222325;
    for inc in &r.incs {
        let code = match inc.exit {
            Exit::Code(c) => c as u64,
            Exit::Signal(s) => 1000 + s as u64,
            Exit::Watchdog => 9999,
        };
        h = crate::rng::fnv_step(h, code);
        for e in &inc.events {
            let s = serde_json::to_vec(e).unwrap();
            h = crate::rng::fnv_step(h, crate::rng::fnv64(&s));
        }
    }
    h
}
