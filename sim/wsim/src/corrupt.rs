//! C11: open and read directory states that were damaged after the engine produced them.
use crate::gen::*;
use crate::oracle::{index_ops, Finding, Sig};
use crate::plan::*;
use crate::props::*;
use crate::rng::{mix, Rng};
use crate::runner::*;
use std::collections::{BTreeMap, BTreeSet};

pub struct CorruptScenario;

pub fn gen_corrupt(seed: u64) -> Plan {
    let mut rng = Rng::new(mix(seed, 0xC11));
    // donor: a C06-style history without reads of its own defects: appends, some consumption, markers
    let mut o = SeqOpts::base("C11", "corrupt");
    o.w = [40, 15, 12, 10, 0, 0, 0, 8, 0, 1];
    o.ops = (4, 40);
    o.incarnations = (1, 2);
    o.final_drain = false;
    o.p_real = 0.0;
    // a third of the donors spread over many topics: one block per topic, so the upper blocks of a file are in use
    o.max_topics = if rng.chance(0.33) { 6 } else { 2 };
    let mut plan = gen_seq(mix(seed, 1), &o);
    plan.property = "C11".into();
    plan.profile = "corrupt".into();
    let g = SMALL;
    // close the donor's last incarnation cleanly
    let mut ids = IdGen(index_ops(&plan).keys().max().copied().unwrap_or(0));
    if let Some(last) = plan.incarnations.last_mut() {
        let ops = &mut last.phases[0].threads[0];
        if !matches!(ops.last().map(|o| &o.kind), Some(OpKind::Close { .. })) {
            ops.push(Op { id: ids.next(), kind: OpKind::Close { inst: 0 } });
        }
    }
    // layout guesses for targeted offsets: entries of the first block are laid out back to back
    let mut first_lens: Vec<u64> = Vec::new();
    for inc in &plan.incarnations {
        for op in &inc.phases[0].threads[0] {
            match &op.kind {
                OpKind::Append { len, .. } => first_lens.push(*len),
                OpKind::BatchAppend { lens, .. } => first_lens.extend(lens.iter().copied()),
                _ => {}
            }
        }
    }
    let mut entry_starts: Vec<u64> = Vec::new();
    let mut acc = 0u64;
    for l in first_lens.iter().take(12) {
        if acc + 256 + l > g.block {
            break;
        }
        entry_starts.push(acc);
        acc += 256 + l;
    }
    if entry_starts.is_empty() {
        entry_starts.push(0);
    }
    let (open_alo, open_fsync) = plan
        .incarnations
        .iter()
        .flat_map(|i| i.phases[0].threads[0].iter())
        .find_map(|o| if let OpKind::Open { alo, fsync, .. } = &o.kind { Some((*alo, fsync.clone())) } else { None })
        .unwrap_or((0, "ms:200".into()));
    let dir = "d/k".to_string();
    let mut v: Vec<Op> = Vec::new();
    let n_mut = rng.range(1, 8);
    for _ in 0..n_mut {
        let es = *rng.pick(&entry_starts);
        let unit = rng.below(g.blocks_per_file) * g.block;
        // header of the first entry of any block, or of an entry of the first block
        let base = if rng.chance(0.5) { unit } else { es };
        let file_len = g.block * g.blocks_per_file;
        // values a damaged length / offset field is most dangerous with
        let boundary = [0u64, 1, 255, 256, g.block - 1, g.block, g.block + 1, 2 * g.block, 4 * g.block, file_len - unit - 1, file_len - unit, file_len, file_len + 1, 1 << 29, u32::MAX as u64, 1 << 40, u64::MAX];
        let (target, action, off, len, arg): (String, &str, u64, u64, u64) = match rng.below(25) {
            // a field of the entry header overwritten with a boundary value (8-byte slots of the metadata region, or unaligned)
            20 | 21 => (format!("wal:{}", rng.below(3)), "setval", base + 2 + 4 * rng.below(20), *rng.pick(&[4u64, 8]), *rng.pick(&boundary)),
            22 => (format!("wal:{}", rng.below(3)), "setval", base + 2 + rng.below(80), *rng.pick(&[4u64, 8]), *rng.pick(&boundary)),
            23 => (format!("wal:{}", rng.below(3)), "setval", base, 2, *rng.pick(&[0u64, 1, 64, 255, 256, 0xFFFF])),
            24 => (format!("wal:{}", rng.below(3)), "flip", base + 2 + rng.below(80), 0, rng.below(8)),
            // entry header: length prefix, rkyv metadata region
            0 => (format!("wal:{}", rng.below(3)), "flip", es + rng.below(2), 0, rng.below(8)),
            1 | 2 => (format!("wal:{}", rng.below(3)), "flip", es + 2 + rng.below(62), 0, rng.below(8)),
            3 => (format!("wal:{}", rng.below(3)), "flip", es + 256 + rng.below(64), 0, rng.below(8)),
            4 => (format!("wal:{}", rng.below(3)), "flip", unit + rng.below(8), 0, rng.below(8)),
            5 => (format!("wal:{}", rng.below(3)), "garbage", es + rng.below(3), rng.range(1, 64), rng.next()),
            6 => (format!("wal:{}", rng.below(3)), "zero", es + rng.below(300), rng.range(1, 600), 0),
            7 => (format!("wal:{}", rng.below(3)), "truncate", *rng.pick(&[0u64, 1, 255, g.block - 1, g.block, g.block * g.blocks_per_file - 1]), 0, 0),
            8 => (format!("wal:{}", rng.below(3)), "truncate", rng.below(g.block * g.blocks_per_file), 0, 0),
            9 => (format!("wal:{}", rng.below(3)), "garbage", u64::MAX, rng.range(1, 5000), rng.next()),
            10 => ("index".into(), "flip", rng.below(200), 0, rng.below(8)),
            11 => ("index".into(), "truncate", rng.below(60), 0, 0),
            12 => ("index".into(), "garbage", rng.below(40), rng.range(1, 80), rng.next()),
            13 => ("clean".into(), "flip", rng.below(200), 0, rng.below(8)),
            14 => ("clean".into(), *rng.pick(&["truncate", "garbage"]), rng.below(40), rng.range(1, 80), rng.next()),
            15 => (rng.pick(&["index_tmp", "clean_tmp"]).to_string(), "create", 0, *rng.pick(&[0u64, 1, 44, 380, 5000]), rng.next()),
            16 => (format!("new:{}", rng.pick(&["stray.bin", "17", "1700000000000", "notes.txt", "9999999999999999999999"])), "create", 0, *rng.pick(&[0u64, 7, 255, 4096, g.block - 1, g.block * g.blocks_per_file]), rng.next()),
            17 => (format!("new:{}", rng.pick(&["subdir", "1700000000001"])), "mkdir", 0, 0, 0),
            18 => (format!("wal:{}", rng.below(3)), "garbage", unit + rng.below(400), rng.range(1, 3000), rng.next()),
            _ => (format!("wal:{}", rng.below(3)), "zero", rng.below(g.block * 2), rng.range(1, 70_000), 0),
        };
        v.push(Op { id: ids.next(), kind: OpKind::Mutate { dir: dir.clone(), target, action: action.into(), off, len, arg } });
    }
    v.push(Op { id: ids.next(), kind: OpKind::Open { inst: 0, key: Some("k".into()), dir: "d".into(), alo: open_alo, fsync: open_fsync, via_env: false } });
    let n_topics = plan.topics.len() as u32;
    for t in 0..n_topics {
        v.push(Op { id: ids.next(), kind: OpKind::Count { inst: 0, topic: t } });
        v.push(Op { id: ids.next(), kind: OpKind::ReadNext { inst: 0, topic: t, checkpoint: false } });
        v.push(Op { id: ids.next(), kind: OpKind::BatchRead { inst: 0, topic: t, max_bytes: *rng.pick(&[0u64, 1, 300, 70_000, u64::MAX]), checkpoint: false, start: None } });
        v.push(Op { id: ids.next(), kind: OpKind::BatchRead { inst: 0, topic: t, max_bytes: 100_000, checkpoint: rng.chance(0.5), start: Some(*rng.pick(&[0u64, 1, 256, 300, 70_000, 1 << 40])) } });
        v.push(Op { id: ids.next(), kind: OpKind::Drain { inst: 0, topic: t, mode: rng.pick(&["next", "mix", "batch"]).to_string(), max: 3000 } });
        v.push(Op { id: ids.next(), kind: OpKind::Append { inst: 0, topic: t, len: rng.range(24, 2000) } });
        v.push(Op { id: ids.next(), kind: OpKind::Drain { inst: 0, topic: t, mode: "next".into(), max: 3000 } });
        v.push(Op { id: ids.next(), kind: OpKind::IsClean { inst: 0, topic: t } });
    }
    v.push(Op { id: ids.next(), kind: OpKind::Counts { inst: 0 } });
    let backend = if rng.chance(0.5) { plan.incarnations[0].backend.clone() } else { rng.pick(&["fd", "mmap"]).to_string() };
    let mut sched = gen_sched(&mut rng, 1);
    sched.step_budget = 2_000_000;
    plan.incarnations.push(Incarnation {
        sched,
        clock_start_ms: plan.incarnations[0].clock_start_ms,
        clock_delta_ms: Some(rng.range(1, 5000) as i64),
        backend,
        phases: vec![Phase { threads: vec![v] }],
        faults: vec![],
        buggify: vec![],
        trace_io: false,
    });
    plan
}

pub fn judge_corrupt(plan: &Plan, rr: &RunResult) -> (Vec<Finding>, bool) {
    let mut out = Vec::new();
    let ops = index_ops(plan);
    let vidx = plan.incarnations.len() - 1;
    if rr.incs.len() != plan.incarnations.len() {
        // donor failed: not this property's business
        return (out, false);
    }
    // every payload ever appended, per topic (donor and verifier appends)
    let mut appended: BTreeMap<u32, BTreeSet<(u64, u64)>> = BTreeMap::new();
    let mut full: BTreeMap<u32, Vec<(u32, u32, u64)>> = BTreeMap::new();
    for op in ops.values() {
        match &op.kind {
            OpKind::Append { topic, len, .. } => {
                let s = expected_sig(plan.seed, *topic, op.id, 0, *len);
                appended.entry(*topic).or_default().insert((s.0, s.1));
                full.entry(*topic).or_default().push((op.id, 0, *len));
            }
            OpKind::BatchAppend { topic, lens, .. } => {
                for (k, l) in lens.iter().enumerate() {
                    let s = expected_sig(plan.seed, *topic, op.id, k as u32, *l);
                    appended.entry(*topic).or_default().insert((s.0, s.1));
                    full.entry(*topic).or_default().push((op.id, k as u32, *l));
                }
            }
            _ => {}
        }
    }
    let inc = &rr.incs[vidx];
    let mutations: Vec<String> = inc
        .events
        .iter()
        .filter(|e| e.t == "ret")
        .filter_map(|e| match (e.op.and_then(|id| ops.get(&id)), e.res.as_ref()) {
            (Some(Op { kind: OpKind::Mutate { .. }, .. }), Some(r)) => r.text.clone(),
            _ => None,
        })
        .collect();
    let mclass: Vec<String> = ops
        .values()
        .filter_map(|o| if let OpKind::Mutate { target, action, .. } = &o.kind { Some(format!("{}:{}", target.split(':').next().unwrap_or(""), action)) } else { None })
        .collect();
    let applied = mutations.iter().any(|m| !m.starts_with("mutation not applied") && m != "no wal file" && m != "empty");
    let facts = |f: Finding| f.fact("mutations", serde_json::json!(mclass)).fact("backend", serde_json::json!(plan.incarnations[vidx].backend));
    match &inc.exit {
        Exit::Code(0) => {}
        Exit::Signal(s) => {
            out.push(facts(Finding::new("c11.killed_by_signal", vidx, 0, format!("the process opening/reading the damaged directory died with signal {} (mutations: {:?})", s, mutations)).fact("signal", serde_json::json!(s))));
            return (out, applied);
        }
        Exit::Code(79) => {
            out.push(facts(Finding::new("c11.hang", vidx, 0, format!("non-termination on the damaged directory: {}", inc.events.iter().rev().find(|e| e.t == "nonterm").and_then(|e| e.msg.clone()).unwrap_or_default()))));
            return (out, applied);
        }
        Exit::Code(78) => {
            out.push(facts(Finding::new("c11.deadlock", vidx, 0, "deadlock on the damaged directory".into())));
            return (out, applied);
        }
        Exit::Watchdog => {
            out.push(facts(Finding::new("c11.hang", vidx, 0, "wall-clock watchdog on the damaged directory".into())));
            return (out, applied);
        }
        Exit::Code(c) => {
            out.push(facts(Finding::new("c11.abnormal_exit", vidx, 0, format!("exit code {} stderr {}", c, inc.stderr.chars().take(300).collect::<String>()))));
            return (out, applied);
        }
    }
    for e in &inc.events {
        if e.t == "panic" && e.th != 0 {
            // a panic on an engine background thread
            out.push(facts(Finding::new("c11.background_panic", vidx, 0, format!("background thread panicked: {:?}", e.msg))));
            break;
        }
    }
    for e in &inc.events {
        if e.t != "ret" {
            continue;
        }
        let (Some(id), Some(res)) = (e.op, e.res.as_ref()) else { continue };
        let Some(op) = ops.get(&id) else { continue };
        if res.k == "panic" {
            let api = match &op.kind {
                OpKind::Open { .. } => "open",
                k => crate::oracle::api_name(k),
            };
            out.push(facts(
                Finding::new("c11.panic", vidx, id, format!("{} panicked on the damaged directory: {:?} (mutations: {:?})", api, res.msg, mutations))
                    .fact("api", serde_json::json!(api))
                    .fact("msg", serde_json::json!(res.msg.clone().unwrap_or_default().chars().take(60).collect::<String>())),
            ));
            break;
        }
        let (topic, is_offset) = match &op.kind {
            OpKind::ReadNext { topic, .. } | OpKind::Drain { topic, .. } => (*topic, false),
            OpKind::BatchRead { topic, start, .. } => (*topic, start.is_some()),
            _ => continue,
        };
        let set = appended.get(&topic).cloned().unwrap_or_default();
        for (k, s) in res.entries.iter().enumerate() {
            if set.contains(&(s.0, s.1)) {
                continue;
            }
            // offset reads may return a suffix of an entry as their first element
            if is_offset && k == 0 {
                let ok = full.get(&topic).map(|v| {
                    v.iter().any(|(opid, idx, len)| {
                        *len > s.0 && {
                            let p = payload(plan.seed, topic, *opid, *idx, *len);
                            crate::rng::fnv64(&p[(*len - s.0) as usize..]) == s.1
                        }
                    })
                });
                if ok == Some(true) {
                    continue;
                }
            }
            out.push(facts(
                Finding::new(
                    "c11.corrupt_payload",
                    vidx,
                    id,
                    format!("{} returned a payload (len={} hash={:x}) that was never appended to this topic (mutations: {:?})", crate::oracle::api_name(&op.kind), s.0, s.1, mutations),
                )
                .fact("api", serde_json::json!(crate::oracle::api_name(&op.kind))),
            ));
            return (out, applied);
        }
    }
    let _: Option<Sig> = None;
    (out, applied)
}

impl Scenario for CorruptScenario {
    fn id(&self) -> &'static str {
        "C11"
    }
    fn level(&self) -> &'static str {
        "fault_enumeration"
    }
    fn rule_text(&self) -> String {
        "a donor directory produced by the real engine (1-2 incarnations of appends, batches, consumption, markers; both backends) receives 1-8 seeded mutations: bit flips in entry length bytes, the rkyv metadata region, payload bytes, the first bytes of a block, the cursor index and the marker file; header fields of the first entry of any block overwritten with boundary values (0, 1, block+-1, multiples of the block size, file size - block offset +-1, 2^32, 2^64-1); truncation of WAL files to {0,1,255,block-1,block,file-1,random}; zeroed ranges; garbage written in place or appended; stray files (arbitrary, numeric and over-long names, any size), left-over *.tmp files of both index files, sub-directories; a fresh process (either backend) opens it and runs counts, peeks, batch reads, offset reads, drains and an append; oracle: the process returns normally from every call (no signal, panic, deadlock or non-termination under the simulator's step budget) and every returned payload equals an entry appended to that topic (or, for the first element of an offset read, a suffix of one); distinct = distinct (donor, mutation list); non-trivial = at least one mutation was applied".into()
    }
    fn plan_for(&self, seed_r: u64) -> Option<Plan> {
        Some(gen_corrupt(seed_r))
    }
    fn run_one(&self, seed_r: u64, env: &Env) -> Outcome {
        let plan = gen_corrupt(seed_r);
        let rr = run_plan(&env.bins, &plan, &RunOpts { stop_on_abnormal: true, ..Default::default() });
        let mut out = Outcome::default();
        out.executions = rr.incs.len() as u64;
        out.digest = history_hash(&rr);
        // summary of the verifying incarnation only matters for counters
        for inc in &rr.incs {
            if let Exit::Watchdog = inc.exit {
                out.stat("watchdog", 1);
            }
        }
        out.stat("sim_clock_ms", sim_clock_ms(&rr, &plan));
        let (fs, applied) = judge_corrupt(&plan, &rr);
        for o in index_ops(&plan).values() {
            if let OpKind::Mutate { target, action, .. } = &o.kind {
                out.stat(&format!("fault.{}_{}", target.split(':').next().unwrap_or(""), action), 1);
            }
        }
        if applied {
            out.keys.push(crate::rng::fnv64(serde_json::to_string(&plan.incarnations).unwrap().as_bytes()));
        }
        for f in fs {
            out.findings.push((plan.clone(), f));
        }
        out.sample = Some(render_sample(&plan));
        out
    }
    fn judge_plan(&self, plan: &Plan, env: &Env) -> (Vec<Finding>, u64) {
        let rr = run_plan(&env.bins, plan, &RunOpts::default());
        (judge_corrupt(plan, &rr).0, history_hash(&rr))
    }
}
