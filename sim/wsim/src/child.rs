//! Child process: executes one incarnation of a plan against the real engine
//! under the simulator, appending events to `history.jsonl`.
use crate::plan::*;
use crate::sim::{Sim, EXIT_HARNESS, EXIT_OK};
use std::collections::BTreeMap;
use std::panic::{catch_unwind, AssertUnwindSafe};
use std::sync::atomic::{AtomicUsize, Ordering};
use std::sync::{Arc, Mutex};
use walrus_rust::{FsyncSchedule, ReadConsistency, Walrus};

static SIM: std::sync::OnceLock<&'static Sim> = std::sync::OnceLock::new();

struct SimRef(&'static Sim);
impl walrus_rust::wal::verif::Hooks for SimRef {
    fn sched(&self, s: walrus_rust::wal::verif::Site) {
        self.0.sched(s)
    }
    fn gate(&self, s: walrus_rust::wal::verif::Site, r: &dyn Fn() -> bool) {
        self.0.gate(s, r)
    }
    fn spin(&self, s: walrus_rust::wal::verif::Site) {
        self.0.spin(s)
    }
    fn spawn_register(&self, n: &str) -> u64 {
        self.0.spawn_register(n)
    }
    fn thread_start(&self, t: u64) {
        self.0.thread_start(t)
    }
    fn thread_exit(&self) {
        self.0.thread_exit()
    }
    fn sleep(&self, d: std::time::Duration) {
        self.0.sleep(d)
    }
    fn timed_wait(&self, s: walrus_rust::wal::verif::Site, d: std::time::Duration, r: &dyn Fn() -> bool) -> bool {
        self.0.timed_wait(s, d, r)
    }
    fn now_unix_nanos(&self) -> Option<u128> {
        self.0.now_unix_nanos()
    }
    fn io(&self, ev: &walrus_rust::wal::verif::IoEvent<'_>) -> walrus_rust::wal::verif::IoVerdict {
        self.0.io(ev)
    }
    fn after_store(&self) {
        self.0.after_store()
    }
    fn uring_submit(&self, w: &[walrus_rust::wal::verif::UringWrite]) -> walrus_rust::wal::verif::UringVerdict {
        self.0.uring_submit(w)
    }
    fn uring_cqe(&self, w: &walrus_rust::wal::verif::UringWrite, res: i32) -> i32 {
        self.0.uring_cqe(w, res)
    }
    fn probe(&self, n: &'static str) {
        self.0.probe(n)
    }
    fn buggify(&self, n: &'static str) -> bool {
        self.0.buggify(n)
    }
    fn api(&self, o: &'static str, t: &str, n: usize) {
        self.0.api(o, t, n)
    }
}

type Insts = Arc<Mutex<BTreeMap<u32, Arc<Walrus>>>>;

struct Ctx {
    sim: &'static Sim,
    plan: Arc<Plan>,
    insts: Insts,
}

fn parse_fsync(s: &str) -> FsyncSchedule {
    if s == "each" {
        FsyncSchedule::SyncEach
    } else if s == "none" {
        FsyncSchedule::NoFsync
    } else if let Some(ms) = s.strip_prefix("ms:") {
        FsyncSchedule::Milliseconds(ms.parse().unwrap_or(1))
    } else {
        FsyncSchedule::Milliseconds(200)
    }
}

fn err_res(e: &std::io::Error) -> Res {
    Res {
        k: "err".into(),
        err_kind: Some(format!("{:?}", e.kind())),
        msg: Some(e.to_string()),
        ..Default::default()
    }
}

fn ok_res() -> Res {
    Res { k: "ok".into(), ..Default::default() }
}

fn panic_msg(p: Box<dyn std::any::Any + Send>) -> String {
    if let Some(s) = p.downcast_ref::<&str>() {
        s.to_string()
    } else if let Some(s) = p.downcast_ref::<String>() {
        s.clone()
    } else {
        "panic".into()
    }
}

impl Ctx {
    fn inst(&self, i: u32) -> Option<Arc<Walrus>> {
        self.insts.lock().unwrap().get(&i).cloned()
    }

    fn topic(&self, t: u32) -> &str {
        &self.plan.topics[t as usize]
    }

    fn exec(&self, op: &Op) -> Res {
        let seed = self.plan.seed;
        match &op.kind {
            OpKind::Open { inst, key, dir, alo, fsync, via_env } => {
                let mode = if *alo == 0 { ReadConsistency::StrictlyAtOnce } else { ReadConsistency::AtLeastOnce { persist_every: *alo } };
                let built = if *via_env {
                    // the environment is process-global; only one simulated thread runs at a time, so setting it
                    // right before the constructor reads it is a legal sequential use
                    std::env::set_var("WALRUS_DATA_DIR", dir);
                    match key {
                        Some(k) => Walrus::with_consistency_and_schedule_for_key(k, mode, parse_fsync(fsync)),
                        None => Walrus::with_consistency_and_schedule(mode, parse_fsync(fsync)),
                    }
                } else {
                    let mut b = Walrus::builder().data_dir(std::path::PathBuf::from(dir));
                    if let Some(k) = key {
                        b = b.key(k);
                    }
                    b.consistency(mode).fsync_schedule(parse_fsync(fsync)).build()
                };
                match built {
                    Ok(w) => {
                        self.insts.lock().unwrap().insert(*inst, Arc::new(w));
                        ok_res()
                    }
                    Err(e) => err_res(&e),
                }
            }
            OpKind::Close { inst } => {
                let w = self.insts.lock().unwrap().remove(inst);
                let mut r = ok_res();
                if let Some(w) = w {
                    r.val = Some(Arc::strong_count(&w) as u64);
                    drop(w);
                }
                r
            }
            OpKind::Append { inst, topic, len } => {
                let Some(w) = self.inst(*inst) else { return no_inst() };
                // sizes the engine must reject are passed as lazily-zeroed memory (never touched)
                let data = if *len > (64 << 20) { vec![0u8; *len as usize] } else { payload(seed, *topic, op.id, 0, *len) };
                match w.append_for_topic(self.topic(*topic), &data) {
                    Ok(()) => ok_res(),
                    Err(e) => err_res(&e),
                }
            }
            OpKind::BatchAppend { inst, topic, lens } => {
                let Some(w) = self.inst(*inst) else { return no_inst() };
                let bufs: Vec<Vec<u8>> = lens
                    .iter()
                    .enumerate()
                    .map(|(i, l)| if *l > (64 << 20) { vec![0u8; *l as usize] } else { payload(seed, *topic, op.id, i as u32, *l) })
                    .collect();
                let refs: Vec<&[u8]> = bufs.iter().map(|b| b.as_slice()).collect();
                match w.batch_append_for_topic(self.topic(*topic), &refs) {
                    Ok(()) => ok_res(),
                    Err(e) => err_res(&e),
                }
            }
            OpKind::BatchAlias { inst, topic, n, each } => {
                let Some(w) = self.inst(*inst) else { return no_inst() };
                let buf = payload(seed, *topic, op.id, 0, *each);
                let refs: Vec<&[u8]> = (0..*n).map(|_| buf.as_slice()).collect();
                match w.batch_append_for_topic(self.topic(*topic), &refs) {
                    Ok(()) => ok_res(),
                    Err(e) => err_res(&e),
                }
            }
            OpKind::ReadNext { inst, topic, checkpoint } => {
                let Some(w) = self.inst(*inst) else { return no_inst() };
                match w.read_next(self.topic(*topic), *checkpoint) {
                    Ok(Some(e)) => {
                        let mut r = ok_res();
                        r.entries.push(entry_sig(&e.data));
                        r
                    }
                    Ok(None) => {
                        let mut r = ok_res();
                        r.none = Some(true);
                        r
                    }
                    Err(e) => err_res(&e),
                }
            }
            OpKind::BatchRead { inst, topic, max_bytes, checkpoint, start } => {
                let Some(w) = self.inst(*inst) else { return no_inst() };
                match w.batch_read_for_topic(self.topic(*topic), *max_bytes as usize, *checkpoint, *start) {
                    Ok(v) => {
                        let mut r = ok_res();
                        r.entries = v.iter().map(|e| entry_sig(&e.data)).collect();
                        r
                    }
                    Err(e) => err_res(&e),
                }
            }
            OpKind::Drain { inst, topic, mode, max } => {
                let Some(w) = self.inst(*inst) else { return no_inst() };
                let mut r = ok_res();
                let mut calls = 0u32;
                let mut empties = 0;
                while calls < *max {
                    let use_batch = match mode.as_str() {
                        "next" => false,
                        "batch" => true,
                        _ => calls % 2 == 1,
                    };
                    calls += 1;
                    if use_batch {
                        match w.batch_read_for_topic(self.topic(*topic), 1 << 30, true, None) {
                            Ok(v) => {
                                r.calls.push(v.len() as u32);
                                r.call_steps.push(self.sim.step_now());
                                if v.is_empty() {
                                    empties += 1;
                                } else {
                                    empties = 0;
                                }
                                r.entries.extend(v.iter().map(|e| entry_sig(&e.data)));
                            }
                            Err(e) => {
                                r.k = "err".into();
                                r.err_kind = Some(format!("{:?}", e.kind()));
                                r.msg = Some(e.to_string());
                                break;
                            }
                        }
                    } else {
                        match w.read_next(self.topic(*topic), true) {
                            Ok(Some(e)) => {
                                r.calls.push(1);
                                r.call_steps.push(self.sim.step_now());
                                empties = 0;
                                r.entries.push(entry_sig(&e.data));
                            }
                            Ok(None) => {
                                r.calls.push(0);
                                r.call_steps.push(self.sim.step_now());
                                empties += 1;
                            }
                            Err(e) => {
                                r.k = "err".into();
                                r.err_kind = Some(format!("{:?}", e.kind()));
                                r.msg = Some(e.to_string());
                                break;
                            }
                        }
                    }
                    // "mix" needs both APIs to report empty before stopping
                    let need = if mode == "mix" { 2 } else { 1 };
                    if empties >= need {
                        break;
                    }
                }
                r
            }
            OpKind::Count { inst, topic } => {
                let Some(w) = self.inst(*inst) else { return no_inst() };
                let mut r = ok_res();
                r.val = Some(w.get_topic_entry_count(self.topic(*topic)));
                r
            }
            OpKind::Counts { inst } => {
                let Some(w) = self.inst(*inst) else { return no_inst() };
                let mut r = ok_res();
                r.map = Some(w.get_topic_entry_counts().into_iter().collect());
                r
            }
            OpKind::MarkClean { inst, topic } => {
                let Some(w) = self.inst(*inst) else { return no_inst() };
                w.mark_topic_clean(self.topic(*topic));
                ok_res()
            }
            OpKind::MarkDirty { inst, topic } => {
                let Some(w) = self.inst(*inst) else { return no_inst() };
                w.mark_topic_dirty(self.topic(*topic));
                ok_res()
            }
            OpKind::IsClean { inst, topic } => {
                let Some(w) = self.inst(*inst) else { return no_inst() };
                let mut r = ok_res();
                r.flag = Some(w.topic_is_clean(self.topic(*topic)));
                r
            }
            OpKind::Sleep { ms } => {
                walrus_rust::wal::verif::thread::sleep(std::time::Duration::from_millis(*ms));
                ok_res()
            }
            OpKind::ReclaimSnap {} => {
                let (files, blocks) = walrus_rust::wal::verif::reclaim_snapshot();
                let mut r = ok_res();
                // reader state of every live instance: which sealed blocks the consumer has fully passed
                let mut topics = Vec::new();
                let insts: Vec<(u32, Arc<Walrus>)> = self.insts.lock().unwrap().iter().map(|(k, v)| (*k, v.clone())).collect();
                for (i, w) in insts {
                    for row in w.verif_reader_snapshot() {
                        topics.push((i, row.0, row.1, row.2, row.3));
                    }
                }
                r.text = Some(serde_json::json!({"files": files, "blocks": blocks, "topics": topics}).to_string());
                r
            }
            OpKind::RemoveFile { path } => {
                let mut r = ok_res();
                r.flag = Some(std::fs::remove_file(path).is_ok());
                r
            }
            OpKind::Mutate { dir, target, action, off, len, arg } => {
                let mut r = ok_res();
                r.text = Some(mutate(dir, target, action, *off, *len, *arg));
                r
            }
            OpKind::ListDir { dir } => {
                let mut names: Vec<(String, u64)> = Vec::new();
                if let Ok(rd) = std::fs::read_dir(dir) {
                    for e in rd.flatten() {
                        let len = e.metadata().map(|m| m.len()).unwrap_or(0);
                        names.push((e.file_name().to_string_lossy().into_owned(), len));
                    }
                }
                names.sort();
                let mut r = ok_res();
                r.text = Some(serde_json::to_string(&names).unwrap());
                r
            }
        }
    }

    fn run_ops(&self, ops: &[Op]) {
        for op in ops {
            let th = self.sim.tid();
            self.sim.set_op(Some(op.id));
            self.sim.yield_now();
            self.sim.log_ev(&Ev {
                t: "inv".into(),
                step: self.sim.step_now(),
                th,
                op: Some(op.id),
                ..Default::default()
            });
            let res = match catch_unwind(AssertUnwindSafe(|| self.exec(op))) {
                Ok(r) => r,
                Err(p) => Res { k: "panic".into(), msg: Some(panic_msg(p)), ..Default::default() },
            };
            self.sim.set_op(None);
            self.sim.log_ev(&Ev {
                t: "ret".into(),
                step: self.sim.step_now(),
                th,
                op: Some(op.id),
                res: Some(res),
                ..Default::default()
            });
        }
    }
}

fn mutate(dir: &str, target: &str, action: &str, off: u64, len: u64, arg: u64) -> String {
    use std::io::{Seek, SeekFrom, Write};
    use std::os::unix::fs::FileExt;
    let path = if let Some(k) = target.strip_prefix("wal:") {
        let k: usize = k.parse().unwrap_or(0);
        let mut wal: Vec<String> = std::fs::read_dir(dir)
            .map(|rd| rd.flatten().map(|e| e.file_name().to_string_lossy().into_owned()).filter(|n| !n.is_empty() && n.bytes().all(|b| b.is_ascii_digit())).collect())
            .unwrap_or_default();
        wal.sort();
        if wal.is_empty() {
            return "no wal file".into();
        }
        format!("{}/{}", dir, wal[k % wal.len()])
    } else if let Some(n) = target.strip_prefix("new:") {
        format!("{}/{}", dir, n)
    } else {
        match target {
            "index" => format!("{}/read_offset_idx_index.db", dir),
            "clean" => format!("{}/topic_clean_index.db", dir),
            "index_tmp" => format!("{}/read_offset_idx_index.db.tmp", dir),
            "clean_tmp" => format!("{}/topic_clean_index.db.tmp", dir),
            _ => format!("{}/{}", dir, target),
        }
    };
    let noise = |n: u64, seed: u64| -> Vec<u8> {
        let mut x = seed ^ 0xD1CE;
        (0..n).map(|_| crate::rng::splitmix(&mut x) as u8).collect()
    };
    let res: std::io::Result<String> = (|| {
        match action {
            "mkdir" => {
                std::fs::create_dir_all(&path)?;
                Ok(format!("mkdir {}", path))
            }
            "create" => {
                std::fs::write(&path, noise(len, arg))?;
                Ok(format!("create {} len {}", path, len))
            }
            "truncate" => {
                let f = std::fs::OpenOptions::new().write(true).open(&path)?;
                f.set_len(off)?;
                Ok(format!("truncate {} to {}", path, off))
            }
            "flip" => {
                let f = std::fs::OpenOptions::new().read(true).write(true).open(&path)?;
                let flen = f.metadata()?.len();
                if flen == 0 {
                    return Ok("empty".into());
                }
                let o = off % flen;
                let mut b = [0u8; 1];
                f.read_at(&mut b, o)?;
                b[0] ^= 1 << (arg % 8);
                f.write_at(&b, o)?;
                Ok(format!("flip {} byte {} bit {}", path, o, arg % 8))
            }
            "setval" => {
                // overwrite a little-endian field of `len` bytes with `arg`
                let f = std::fs::OpenOptions::new().read(true).write(true).open(&path)?;
                let flen = f.metadata()?.len();
                let w = len.clamp(1, 8);
                if off + w > flen {
                    return Ok("out of range".into());
                }
                f.write_at(&arg.to_le_bytes()[..w as usize], off)?;
                Ok(format!("setval {} [{}..{}) = {:#x}", path, off, off + w, arg))
            }
            "zero" => {
                let f = std::fs::OpenOptions::new().read(true).write(true).open(&path)?;
                let flen = f.metadata()?.len();
                if flen == 0 {
                    return Ok("empty".into());
                }
                let o = off % flen;
                let l = len.min(flen - o);
                f.write_at(&vec![0u8; l as usize], o)?;
                Ok(format!("zero {} [{}..{})", path, o, o + l))
            }
            "garbage" => {
                let mut f = std::fs::OpenOptions::new().read(true).write(true).create(true).open(&path)?;
                let flen = f.metadata()?.len();
                let o = if off == u64::MAX { flen } else { off.min(flen) };
                f.seek(SeekFrom::Start(o))?;
                f.write_all(&noise(len, arg))?;
                Ok(format!("garbage {} [{}..{})", path, o, o + len))
            }
            _ => Ok("unknown action".into()),
        }
    })();
    match res {
        Ok(s) => s,
        Err(e) => format!("mutation not applied: {}", e),
    }
}

fn no_inst() -> Res {
    Res { k: "err".into(), err_kind: Some("NoInstance".into()), ..Default::default() }
}

pub fn run_child(plan_path: &str, inc_idx: usize, clock_override: Option<u64>) -> ! {
    let plan: Plan = match std::fs::read(plan_path).ok().and_then(|b| serde_json::from_slice(&b).ok()) {
        Some(p) => p,
        None => {
            eprintln!("wsim child: cannot read plan {}", plan_path);
            std::process::exit(EXIT_HARNESS);
        }
    };
    let inc = plan.incarnations[inc_idx].clone();
    crate::set_getrandom_seed(crate::rng::mix(plan.seed, inc_idx as u64 + 1));
    unsafe {
        std::env::set_var("WALRUS_QUIET", "1");
    }
    if inc.backend == "mmap" {
        walrus_rust::disable_fd_backend();
    } else {
        walrus_rust::enable_fd_backend();
    }
    let log = std::fs::OpenOptions::new()
        .create(true)
        .append(true)
        .open("history.jsonl")
        .expect("history");
    let trace = if inc.trace_io {
        Some(
            std::fs::OpenOptions::new()
                .create(true)
                .append(true)
                .open(format!("trace.{}.bin", inc_idx))
                .expect("trace"),
        )
    } else {
        None
    };
    let sim: &'static Sim = Box::leak(Box::new(Sim::new(
        inc.sched.clone(),
        clock_override.unwrap_or(inc.clock_start_ms),
        inc.faults.clone(),
        inc.buggify.clone(),
        inc.trace_io,
        log,
        trace,
    )));
    let _ = SIM.set(sim);
    // panics anywhere (engine background threads included) are recorded
    std::panic::set_hook(Box::new(|info| {
        if let Some(sim) = SIM.get() {
            let loc = info.location().map(|l| format!("{}:{}", l.file(), l.line())).unwrap_or_default();
            let msg = if let Some(s) = info.payload().downcast_ref::<&str>() {
                s.to_string()
            } else if let Some(s) = info.payload().downcast_ref::<String>() {
                s.clone()
            } else {
                "panic".into()
            };
            sim.log_ev(&Ev {
                t: "panic".into(),
                step: 0,
                th: sim.tid(),
                msg: Some(format!("{} at {}", msg, loc)),
                ..Default::default()
            });
        }
    }));
    sim.register_main();
    walrus_rust::wal::verif::install(Box::new(SimRef(sim)));
    sim.log_ev(&Ev {
        t: "start".into(),
        step: 0,
        th: 0,
        msg: Some(format!("inc={} seed={} sched_seed={} clock_ms={}", inc_idx, plan.seed, inc.sched.seed, clock_override.unwrap_or(inc.clock_start_ms))),
        ..Default::default()
    });

    let ctx = Arc::new(Ctx { sim, plan: Arc::new(plan), insts: Arc::new(Mutex::new(BTreeMap::new())) });
    for phase in inc.phases.iter() {
        if phase.threads.len() == 1 {
            ctx.run_ops(&phase.threads[0]);
        } else {
            let remaining = Arc::new(AtomicUsize::new(phase.threads.len()));
            for (ti, ops) in phase.threads.iter().enumerate() {
                let ctx2 = ctx.clone();
                let ops = ops.clone();
                let rem = remaining.clone();
                walrus_rust::wal::verif::thread::spawn_named(&format!("client{}", ti), move || {
                    ctx2.run_ops(&ops);
                    rem.fetch_sub(1, Ordering::SeqCst);
                });
            }
            let rem = remaining.clone();
            sim.wait_until(&move || rem.load(Ordering::SeqCst) == 0);
        }
    }
    sim.log_ev(&Ev {
        t: "summary".into(),
        step: sim.step_now(),
        msg: Some(sim.summary().to_string()),
        ..Default::default()
    });
    sim.log_ev(&Ev { t: "end".into(), step: sim.step_now(), th: 0, ..Default::default() });
    unsafe { libc::_exit(EXIT_OK) }
}
