//! C10: power loss with FsyncSchedule::SyncEach. The workload runs once with the full I/O
//! trace recorded (bytes included); the parent replays the trace into a small model file
//! system that knows what is durable (O_SYNC handles, fsync/msync of a file, fsync of a
//! directory for namespace operations) and, for sampled prefixes of the trace and sampled
//! subsets of the not-yet-durable operations, materialises the directory and opens it in a
//! fresh process.
use crate::gen::*;
use crate::oracle::{index_ops, Finding, Sig};
use crate::plan::*;
use crate::props::*;
use crate::rng::{mix, Rng};
use crate::runner::*;
use std::collections::{BTreeMap, BTreeSet};
use std::path::Path;

pub struct PowerScenario;

pub fn gen_power(seed: u64) -> Plan {
    let mut rng = Rng::new(mix(seed, 0xC10));
    let g = SMALL;
    let n_topics = rng.range(1, 2) as usize;
    let mut pool: Vec<&str> = TOPIC_POOL[..5].to_vec();
    let mut topics = Vec::new();
    for _ in 0..n_topics {
        let i = rng.below(pool.len() as u64) as usize;
        topics.push(pool.remove(i).to_string());
    }
    let backend = rng.pick(&["fd", "fd", "mmap"]).to_string();
    let mut ids = IdGen(0);
    let mut ops = vec![Op { id: ids.next(), kind: OpKind::Open { inst: 0, key: Some("k".into()), dir: "d".into(), alo: 0, fsync: "each".into(), via_env: false } }];
    let n = rng.range(3, 25);
    for _ in 0..n {
        let t = rng.below(n_topics as u64) as u32;
        let len = |rng: &mut Rng| match rng.below(10) {
            0 => rng.range(g.block / 3, g.block / 2),
            1 => g.block - 256 - rng.below(3),
            2 => g.block + rng.range(10, 5000),
            _ => rng.range(24, 3000),
        };
        let kind = match rng.below(10) {
            0..=3 => OpKind::Append { inst: 0, topic: t, len: len(&mut rng) },
            4..=5 => {
                let k = rng.range(1, 8);
                OpKind::BatchAppend { inst: 0, topic: t, lens: (0..k).map(|_| len(&mut rng)).collect() }
            }
            6..=7 => OpKind::ReadNext { inst: 0, topic: t, checkpoint: true },
            8 => OpKind::BatchRead { inst: 0, topic: t, max_bytes: *rng.pick(&[1u64, 3000, 100_000, u64::MAX]), checkpoint: true, start: None },
            _ => OpKind::MarkClean { inst: 0, topic: t },
        };
        ops.push(Op { id: ids.next(), kind });
    }
    let clock_ms: u64 = 1_700_000_000_000 + rng.below(1_000_000);
    let work = Incarnation {
        sched: SchedCfg::prio(),
        clock_start_ms: clock_ms,
        clock_delta_ms: None,
        backend: backend.clone(),
        phases: vec![Phase { threads: vec![ops] }],
        faults: vec![],
        buggify: vec![],
        trace_io: true,
    };
    let mut v = vec![Op { id: ids.next(), kind: OpKind::Open { inst: 0, key: Some("k".into()), dir: "d".into(), alo: 0, fsync: "each".into(), via_env: false } }];
    for t in 0..n_topics as u32 {
        v.push(Op { id: ids.next(), kind: OpKind::Drain { inst: 0, topic: t, mode: "next".into(), max: 4000 } });
    }
    let verify = Incarnation {
        sched: SchedCfg::prio(),
        clock_start_ms: clock_ms + 60_000,
        clock_delta_ms: None,
        backend,
        phases: vec![Phase { threads: vec![v] }],
        faults: vec![],
        buggify: vec![],
        trace_io: false,
    };
    Plan { v: 1, property: "C10".into(), profile: "powerloss".into(), seed, geometry: "small".into(), topics, incarnations: vec![work, verify] }
}

#[derive(Clone, Debug)]
pub struct TraceRec {
    pub rec: IoRec,
    pub data: Vec<u8>,
}

pub fn read_trace(path: &Path) -> Vec<TraceRec> {
    let mut out = Vec::new();
    let Ok(bytes) = std::fs::read(path) else { return out };
    let mut i = 0usize;
    while i + 12 <= bytes.len() {
        let hl = u32::from_le_bytes(bytes[i..i + 4].try_into().unwrap()) as usize;
        let dl = u64::from_le_bytes(bytes[i + 4..i + 12].try_into().unwrap()) as usize;
        i += 12;
        if i + hl + dl > bytes.len() {
            break;
        }
        let Ok(rec) = serde_json::from_slice::<IoRec>(&bytes[i..i + hl]) else { break };
        i += hl;
        let data = bytes[i..i + dl].to_vec();
        i += dl;
        out.push(TraceRec { rec, data });
    }
    out
}

#[derive(Clone, Debug, Default)]
struct MFile {
    /// directory entry is durable (covered by a directory fsync)
    entry_durable: bool,
    exists: bool,
    len_durable: u64,
    len_volatile: Option<u64>,
    durable: Vec<(u64, Vec<u8>)>,
    volatile: Vec<(u64, Vec<u8>)>,
    osync: bool,
}

#[derive(Clone, Debug)]
enum NsOp {
    Rename { from: String, to: String, content: Box<MFile> },
    Remove { path: String },
}

#[derive(Clone, Debug, Default)]
pub struct ModelFs {
    files: BTreeMap<String, MFile>,
    pending_ns: Vec<NsOp>,
    pub volatile_items: u64,
}

fn parent_of(p: &str) -> String {
    p.rsplit_once('/').map(|x| x.0.to_string()).unwrap_or_default()
}

impl ModelFs {
    pub fn apply(&mut self, t: &TraceRec) {
        let r = &t.rec;
        match r.kind.as_str() {
            "Open" => {
                if r.path2 == "O_SYNC" {
                    if let Some(f) = self.files.get_mut(&r.path) {
                        f.osync = true;
                    }
                }
            }
            "Create" => {
                let f = self.files.entry(r.path.clone()).or_default();
                // create truncates
                let keep = f.entry_durable;
                *f = MFile { entry_durable: keep, exists: true, ..Default::default() };
            }
            "SetLen" => {
                if let Some(f) = self.files.get_mut(&r.path) {
                    f.len_volatile = Some(r.len);
                }
            }
            "FileFsync" | "Flush" | "TmpFsync" => {
                if let Some(f) = self.files.get_mut(&r.path) {
                    if let Some(l) = f.len_volatile.take() {
                        f.len_durable = l;
                    }
                    let v = std::mem::take(&mut f.volatile);
                    f.durable.extend(v);
                }
            }
            "DirFsync" => {
                for (p, f) in self.files.iter_mut() {
                    if parent_of(p) == r.path && f.exists {
                        f.entry_durable = true;
                    }
                }
                // namespace operations of that directory become durable: apply them for good
                let ops = std::mem::take(&mut self.pending_ns);
                for op in ops {
                    let dir = match &op {
                        NsOp::Rename { to, .. } => parent_of(to),
                        NsOp::Remove { path } => parent_of(path),
                    };
                    if dir == r.path {
                        self.commit_ns(&op);
                    } else {
                        self.pending_ns.push(op);
                    }
                }
            }
            "Store" | "UringWrite" => {
                if t.data.is_empty() {
                    return;
                }
                let f = self.files.entry(r.path.clone()).or_default();
                f.exists = true;
                if f.osync && !r.mmap {
                    f.durable.push((r.off, t.data.clone()));
                } else {
                    f.volatile.push((r.off, t.data.clone()));
                }
            }
            "TmpWrite" => {
                // fs::write: create or truncate, then write
                let f = self.files.entry(r.path.clone()).or_default();
                let keep = f.entry_durable;
                *f = MFile { entry_durable: keep, exists: true, len_volatile: Some(t.data.len() as u64), ..Default::default() };
                f.volatile.push((0, t.data.clone()));
            }
            "Rename" => {
                if let Some(src) = self.files.get(&r.path).cloned() {
                    self.pending_ns.push(NsOp::Rename { from: r.path.clone(), to: r.path2.clone(), content: Box::new(src) });
                }
            }
            "Remove" => {
                self.pending_ns.push(NsOp::Remove { path: r.path.clone() });
            }
            _ => {}
        }
    }

    fn commit_ns(&mut self, op: &NsOp) {
        match op {
            NsOp::Rename { from, to, content } => {
                let mut c = (**content).clone();
                c.entry_durable = true;
                self.files.insert(to.clone(), c);
                self.files.remove(from);
            }
            NsOp::Remove { path } => {
                self.files.remove(path);
            }
        }
    }

    /// One admissible post-power-loss state: `keep(i)` decides for the i-th not-yet-durable item
    /// whether it reached the disk.
    pub fn materialise(&self, root: &Path, keep: &mut dyn FnMut() -> bool) -> u64 {
        let mut fs = self.clone();
        let mut items = 0u64;
        // namespace operations that were never made durable: each may or may not have happened
        let ops = std::mem::take(&mut fs.pending_ns);
        for op in ops {
            items += 1;
            if keep() {
                fs.commit_ns(&op);
            }
        }
        for (p, f) in fs.files.iter() {
            if !f.exists {
                continue;
            }
            if !f.entry_durable {
                items += 1;
                if !keep() {
                    continue;
                }
            }
            let full = root.join(p);
            if let Some(parent) = full.parent() {
                let _ = std::fs::create_dir_all(parent);
            }
            let Ok(file) = std::fs::OpenOptions::new().create(true).write(true).truncate(true).open(&full) else { continue };
            let mut len = f.len_durable;
            if let Some(l) = f.len_volatile {
                items += 1;
                if keep() {
                    len = l;
                }
            }
            use std::os::unix::fs::FileExt;
            let mut max_end = len;
            for (off, d) in f.durable.iter() {
                let _ = file.write_at(d, *off);
                max_end = max_end.max(off + d.len() as u64);
            }
            for (off, d) in f.volatile.iter() {
                items += 1;
                if keep() {
                    let _ = file.write_at(d, *off);
                    max_end = max_end.max(off + d.len() as u64);
                }
            }
            let _ = file.set_len(max_end.max(len));
        }
        items
    }
}

fn acked_before(inc: &IncResult, cut_io: u64, ops: &BTreeMap<u32, &Op>, plan: &Plan) -> (BTreeMap<u32, Vec<Sig>>, BTreeMap<u32, Vec<Sig>>) {
    // (acknowledged appends per topic in order, entries returned by consuming reads per topic)
    let mut acked: BTreeMap<u32, Vec<Sig>> = BTreeMap::new();
    let mut consumed: BTreeMap<u32, Vec<Sig>> = BTreeMap::new();
    for e in &inc.events {
        if e.t == "io" {
            if let Some(io) = &e.io {
                if io.n > cut_io {
                    break;
                }
            }
        }
        if e.t == "ret" {
            let (Some(id), Some(res)) = (e.op, e.res.as_ref()) else { continue };
            let Some(op) = ops.get(&id) else { continue };
            if res.k != "ok" {
                continue;
            }
            match &op.kind {
                OpKind::Append { topic, len, .. } => acked.entry(*topic).or_default().push(expected_sig(plan.seed, *topic, id, 0, *len)),
                OpKind::BatchAppend { topic, lens, .. } => {
                    for (k, l) in lens.iter().enumerate() {
                        acked.entry(*topic).or_default().push(expected_sig(plan.seed, *topic, id, k as u32, *l));
                    }
                }
                OpKind::ReadNext { topic, checkpoint: true, .. } | OpKind::BatchRead { topic, checkpoint: true, start: None, .. } => {
                    consumed.entry(*topic).or_default().extend(res.entries.iter().copied());
                }
                _ => {}
            }
        }
    }
    (acked, consumed)
}

pub fn judge_power(plan: &Plan, work: &IncResult, verify: &IncResult, cut_io: u64, variant: &str) -> Vec<Finding> {
    let ops = index_ops(plan);
    let mut out = Vec::new();
    let (acked, consumed) = acked_before(work, cut_io, &ops, plan);
    let fin = |f: Finding| f.fact("variant", serde_json::json!(variant)).fact("backend", serde_json::json!(plan.incarnations[0].backend));
    if !matches!(verify.exit, Exit::Code(0)) {
        out.push(fin(Finding::new("c10.recovery_died", 1, 0, format!("after power loss at I/O event {} ({}) the recovering process ended with {:?}", cut_io, variant, verify.exit))));
        return out;
    }
    for e in &verify.events {
        if e.t != "ret" {
            continue;
        }
        let (Some(id), Some(res)) = (e.op, e.res.as_ref()) else { continue };
        let Some(op) = ops.get(&id) else { continue };
        match &op.kind {
            OpKind::Open { .. } => {
                if res.k != "ok" {
                    out.push(fin(Finding::new("c10.open_failed", 1, id, format!("open after power loss at I/O event {} ({}) returned {} {:?} {:?}", cut_io, variant, res.k, res.err_kind, res.msg))));
                    return out;
                }
            }
            OpKind::Drain { topic, .. } => {
                let a = acked.get(topic).cloned().unwrap_or_default();
                let c = consumed.get(topic).cloned().unwrap_or_default();
                // consumed entries must be a prefix of the acknowledged log for this reasoning
                if !c.iter().zip(a.iter()).all(|(x, y)| x.0 == y.0 && x.1 == y.1) || c.len() > a.len() {
                    continue;
                }
                let rec = &res.entries;
                // where does the recovered stream start in the acknowledged log?
                let start = match rec.first() {
                    None => a.len(),
                    Some(f) => match a.iter().position(|s| s.0 == f.0 && s.1 == f.1) {
                        Some(p) => p,
                        None => a.len(), // first recovered entry belongs to an operation in flight at the cut
                    },
                };
                if start < c.len() {
                    out.push(fin(
                        Finding::new(
                            "c10.consumption_lost",
                            1,
                            id,
                            format!("SyncEach + StrictlyAtOnce: {} entries had been returned by consuming reads before the power loss at I/O event {} ({}), the consumer resumed at entry {}", c.len(), cut_io, variant, start),
                        )
                        .fact("redelivered", serde_json::json!(c.len() - start)),
                    ));
                    continue;
                }
                // a consuming read in flight at the cut may have taken effect or not
                let inflight_read = {
                    let mut inv: BTreeSet<u32> = BTreeSet::new();
                    let mut open_read = false;
                    for e in &work.events {
                        if e.t == "io" && e.io.as_ref().map(|io| io.n > cut_io).unwrap_or(false) {
                            break;
                        }
                        if let Some(id) = e.op {
                            let is_read = matches!(ops.get(&id).map(|o| &o.kind), Some(OpKind::ReadNext { topic: t, checkpoint: true, .. }) | Some(OpKind::BatchRead { topic: t, checkpoint: true, start: None, .. }) if t == topic);
                            if is_read && e.t == "inv" {
                                inv.insert(id);
                            }
                            if is_read && e.t == "ret" {
                                inv.remove(&id);
                            }
                        }
                    }
                    if !inv.is_empty() {
                        open_read = true;
                    }
                    open_read
                };
                if start > c.len() && !inflight_read && c.len() < a.len() {
                    out.push(fin(
                        Finding::new(
                            "c10.skipped",
                            1,
                            id,
                            format!("after power loss at I/O event {} ({}) the consumer resumed at entry {} although only {} had been returned and no read was in flight", cut_io, variant, start, c.len()),
                        )
                        .fact("skipped", serde_json::json!(start - c.len())),
                    ));
                    continue;
                }
                // every acknowledged entry from the resume position on must be present, in order
                let c_len = start.max(c.len()).min(a.len());
                let expect = &a[c_len..];
                let mut it = rec.iter();
                let mut missing = 0usize;
                let mut first_missing = None;
                for (k, s) in expect.iter().enumerate() {
                    let mut found = false;
                    for r in it.by_ref() {
                        if r.0 == s.0 && r.1 == s.1 {
                            found = true;
                            break;
                        }
                    }
                    if !found {
                        missing = expect.len() - k;
                        first_missing = Some((k + c_len, s.0));
                        break;
                    }
                }
                if missing > 0 {
                    out.push(fin(
                        Finding::new(
                            "c10.append_lost",
                            1,
                            id,
                            format!("SyncEach: {} acknowledged entries are missing after power loss at I/O event {} ({}); first missing is entry #{} (len {}) of {} acknowledged", missing, cut_io, variant, first_missing.unwrap().0, first_missing.unwrap().1, a.len()),
                        )
                        .fact("missing", serde_json::json!(missing)),
                    ));
                }
            }
            _ => {}
        }
    }
    out
}

impl PowerScenario {
    fn run_cut(&self, env: &Env, plan: &Plan, trace: &[TraceRec], cut_io: u64, variant: &str, vseed: u64) -> (IncResult, u64) {
        let mut fs = ModelFs::default();
        for t in trace.iter() {
            if t.rec.n > cut_io {
                break;
            }
            fs.apply(t);
        }
        let dir = new_run_dir();
        let mut rng = Rng::new(vseed);
        let mut keep: Box<dyn FnMut() -> bool> = match variant {
            "lose_all" => Box::new(|| false),
            "keep_all" => Box::new(|| true),
            _ => Box::new(move || rng.chance(0.5)),
        };
        let items = fs.materialise(&dir, &mut *keep);
        std::fs::write(dir.join("plan.json"), serde_json::to_vec(plan).unwrap()).expect("plan");
        let r = run_incarnation(&env.bins, plan, &dir, 1, &RunOpts::default(), None);
        let _ = std::fs::remove_dir_all(&dir);
        (r, items)
    }
}

impl Scenario for PowerScenario {
    fn id(&self) -> &'static str {
        "C10"
    }
    fn level(&self) -> &'static str {
        "fault_enumeration"
    }
    fn rule_text(&self) -> String {
        "SyncEach workloads (3-25 appends, batches, StrictlyAtOnce consuming reads, marker calls; rotation and file creation included; both backends) run once with the complete I/O trace recorded (offsets and bytes of every store, io_uring write and tmp-file write; create, set_len, fsync/msync, directory fsync, rename, remove; O_SYNC opens); the trace is replayed into a model file system in which data is durable only through an O_SYNC handle or a later fsync/msync of that file and directory entries (create, rename, remove) only through a later fsync of the directory; for sampled prefixes of the trace and three choices of which not-yet-durable items survived (none, all, seeded half) the directory is materialised and opened in a fresh process; oracle: appends acknowledged before the cut are all present in order, and entries returned by StrictlyAtOnce consuming reads before the cut are not delivered again; distinct = (workload, cut, variant); non-trivial = the cut state contained at least one not-yet-durable item or the cut lies inside an operation".into()
    }
    fn components(&self) -> serde_json::Value {
        serde_json::json!({
            "real": ["walrus-rust engine built from /repo's working tree (workload and recovery run real code on tmpfs)"],
            "stub": ["power loss is not injected live: durability is decided by the model file system in sim/wsim/src/powerloss.rs from the recorded trace", "thread scheduling, clock, hash seeds: simulator"]
        })
    }
    fn plan_for(&self, seed_r: u64) -> Option<Plan> {
        Some(gen_power(seed_r))
    }
    fn run_one(&self, seed_r: u64, env: &Env) -> Outcome {
        let mut out = Outcome::default();
        let plan = gen_power(seed_r);
        let mut rng = Rng::new(mix(seed_r, 0x9A55));
        // workload with trace, directory kept for the trace file
        let dir = new_run_dir();
        std::fs::write(dir.join("plan.json"), serde_json::to_vec(&plan).unwrap()).expect("plan");
        let work = run_incarnation(&env.bins, &plan, &dir, 0, &RunOpts::default(), None);
        out.executions += 1;
        let trace = read_trace(&dir.join("trace.0.bin"));
        let _ = std::fs::remove_dir_all(&dir);
        out.digest = {
            let rr = RunResult { incs: vec![work.clone()], dir: dir.clone(), wall_ms: 0 };
            history_hash(&rr)
        };
        if !matches!(work.exit, Exit::Code(0)) {
            out.harness_errors.push(format!("workload ended {:?} {}", work.exit, work.stderr.chars().take(200).collect::<String>()));
            return out;
        }
        let max_io = trace.iter().map(|t| t.rec.n).max().unwrap_or(0);
        out.stat("trace_records", trace.len() as u64);
        // candidate cuts: every mutating event number; biased to events around renames, flushes and submits
        let mut interesting: BTreeSet<u64> = BTreeSet::new();
        for t in &trace {
            if matches!(t.rec.kind.as_str(), "Rename" | "TmpFsync" | "TmpWrite" | "Flush" | "DirFsync" | "Create" | "UringWrite" | "FileFsync") {
                interesting.insert(t.rec.n);
                if t.rec.n > 0 {
                    interesting.insert(t.rec.n - 1);
                }
            }
        }
        let mut cuts: Vec<u64> = interesting.into_iter().filter(|n| *n >= 1 && *n <= max_io).collect();
        let cap = if env.thorough { 120 } else { 14 };
        while cuts.len() > cap {
            let i = rng.below(cuts.len() as u64) as usize;
            cuts.remove(i);
        }
        // the final state (all operations returned) is always checked
        if !cuts.contains(&max_io) {
            cuts.push(max_io);
        }
        let mut sampled = false;
        for cut in cuts {
            for variant in ["lose_all", "half", "keep_all"] {
                if std::time::Instant::now() >= env.deadline {
                    out.stat("enumeration_truncated", 1);
                    out.deadline_cut = true;
                    return out;
                }
                let (ver, items) = self.run_cut(env, &plan, &trace, cut, variant, mix(seed_r, cut * 7 + variant.len() as u64));
                out.executions += 1;
                out.digest = crate::rng::fnv_step(out.digest, history_hash(&RunResult { incs: vec![ver.clone()], dir: dir.clone(), wall_ms: 0 }));
                out.stat(&format!("fault.powerloss_{}", variant), 1);
                out.stat("volatile_items_at_cuts", items);
                if items > 0 || cut < max_io {
                    out.keys.push(crate::rng::fnv64(format!("{}:{}:{}", seed_r, cut, variant).as_bytes()));
                }
                for f in judge_power(&plan, &work, &ver, cut, variant) {
                    let mut p = plan.clone();
                    // the replay file records the cut in the (unused) fault list of the verifying incarnation
                    p.incarnations[1].faults = vec![Fault { sel: Sel::AtIo(cut), act: Act::Fail { errno: match variant { "lose_all" => 0, "keep_all" => 1, _ => 2 } } }];
                    out.findings.push((p, f));
                }
                if !sampled {
                    let mut s = render_sample(&plan);
                    s["power_loss"] = serde_json::json!({"after_io_event": cut, "of": max_io, "variant": variant, "not_yet_durable_items": items});
                    out.sample = Some(s);
                    sampled = true;
                }
            }
        }
        out
    }
    fn judge_plan(&self, plan: &Plan, env: &Env) -> (Vec<Finding>, u64) {
        // replay: the cut and variant are stored in the verifying incarnation's fault list
        let (cut, variant) = match plan.incarnations.get(1).and_then(|i| i.faults.first()) {
            Some(Fault { sel: Sel::AtIo(c), act: Act::Fail { errno } }) => (*c, match errno { 0 => "lose_all", 1 => "keep_all", _ => "half" }),
            _ => return (vec![], 0),
        };
        let mut base = plan.clone();
        base.incarnations[1].faults.clear();
        let dir = new_run_dir();
        std::fs::write(dir.join("plan.json"), serde_json::to_vec(&base).unwrap()).expect("plan");
        let work = run_incarnation(&env.bins, &base, &dir, 0, &RunOpts::default(), None);
        let trace = read_trace(&dir.join("trace.0.bin"));
        let _ = std::fs::remove_dir_all(&dir);
        if !matches!(work.exit, Exit::Code(0)) {
            return (vec![], 0);
        }
        let (ver, _) = self.run_cut(env, &base, &trace, cut, variant, mix(base.seed, cut * 7 + variant.len() as u64));
        let h = {
            let rr = RunResult { incs: vec![work.clone(), ver.clone()], dir, wall_ms: 0 };
            history_hash(&rr)
        };
        (judge_power(&base, &work, &ver, cut, variant), h)
    }
}
