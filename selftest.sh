#!/bin/bash
# ./check selftest determinism [runs_scale_percent] [ids...]
#   Every check's first N runs (N = scale% of its quick run count, default 25 %) are executed in three separate
#   parent processes - 8 workers, 3 workers, and 13 workers under a different VERIF_SEED-independent environment
#   (different cwd, extra env noise) - and the per-run digests (hash of the complete event history of every child
#   process of the run: schedule-dependent API results, I/O events with content hashes, exit codes) are compared
#   run by run. Any difference: exit 2.
# ./check selftest sensitivity [ids...]
#   Applies every kept seeded change under seeded/<name>/patch.diff to /repo's working tree (which must be clean),
#   runs the checks named in its meta.json ("detected_by") at the tier named there, expects a VIOLATION line from at
#   least one of them, and undoes the change. Exit 0 if every change listed as detected is detected again.
ROOT="$(cd "$(dirname "$0")" && pwd)"
cd "$ROOT"
mode="${1:-}"; shift
bin_for() { case "$1" in C20|C21) echo "$ROOT/target/osim/release/osim";; C18|C22|C23|C24) echo "$ROOT/target/dsim/release/dsim";; *) echo "$ROOT/target/small/release/wsim";; esac; }
. "$ROOT/runs_table.sh"
case "$mode" in
determinism)
  scale="${1:-25}"; [ $# -gt 0 ] && shift
  ids="${*:-C01 C02 C03 C04 C05 C06 C07 C08 C09 C10 C11 C12 C13 C15 C16 C17 C18 C20 C21 C22 C23 C24}"
  out="$ROOT/target/selftest"; rm -rf "$out"; mkdir -p "$out/ev" "$out/rp"
  export VERIF_ROOT="$ROOT" VERIF_EVIDENCE_DIR="$out/ev" VERIF_REPLAY_DIR="$out/rp"
  bad=0; total=0
  for id in $ids; do
    n=$(( $(quick_runs $id) * scale / 100 )); [ "$n" -lt 8 ] && n=8
    bin=$(bin_for $id)
    VERIF_BUDGET_S=7200 VERIF_MAX_RUNS=$n VERIF_WORKERS=8  VERIF_DIGEST_LOG="$out/$id.a" "$bin" run $id quick >"$out/$id.a.log" 2>&1
    VERIF_BUDGET_S=7200 VERIF_MAX_RUNS=$n VERIF_WORKERS=3  VERIF_DIGEST_LOG="$out/$id.b" "$bin" run $id quick >"$out/$id.b.log" 2>&1
    ( cd / && env "NOISE_$RANDOM=$RANDOM" LANG=C TZ=UTC+7 VERIF_BUDGET_S=7200 VERIF_MAX_RUNS=$n VERIF_WORKERS=13 VERIF_DIGEST_LOG="$out/$id.c" "$bin" run $id quick >"$out/$id.c.log" 2>&1 )
    for x in a b c; do [ -f "$out/$id.$x" ] || : > "$out/$id.$x"; done
    for x in a b c; do grep -v ' cut$' "$out/$id.$x" | sort -n > "$out/$id.$x.s"; done
    # compare the runs present in all three logs (a run cut by the wall-clock cap is not comparable)
    d1=$(join -j1 <(awk '{print $1" "$3}' "$out/$id.a.s" | sort -k1,1) <(awk '{print $1" "$3}' "$out/$id.b.s" | sort -k1,1) | awk '$2!=$3' | wc -l)
    d2=$(join -j1 <(awk '{print $1" "$3}' "$out/$id.a.s" | sort -k1,1) <(awk '{print $1" "$3}' "$out/$id.c.s" | sort -k1,1) | awk '$2!=$3' | wc -l)
    c=$(wc -l < "$out/$id.a.s"); cb=$(wc -l < "$out/$id.b.s"); cc=$(wc -l < "$out/$id.c.s")
    [ "$c" = "$cb" ] && [ "$c" = "$cc" ] || { echo "selftest determinism: $id run counts differ ($c/$cb/$cc)"; bad=1; }
    total=$((total + c))
    echo "selftest determinism: $id runs=$c differing(8 vs 3 workers)=$d1 differing(8 vs 13 workers, other cwd/env)=$d2"
    [ "$d1" != 0 ] || [ "$d2" != 0 ] || [ "$c" = 0 ] && bad=1
  done
  echo "selftest determinism: $total runs executed three times each; $( [ $bad = 0 ] && echo "all digests equal" || echo "DIFFERENCES FOUND")"
  [ $bad = 0 ] || exit 2
  ;;
sensitivity)
  exec python3 "$ROOT/selftest_sensitivity.py" "$@"
  ;;
*) echo "usage: check selftest determinism [scale%] [ids] | sensitivity [names]"; exit 2;;
esac
