#!/bin/bash
# sweep_bin.sh "<seeds>" "<ids>" <quick|thorough|budget_s> [start_index]
#   builds the harness binaries ONCE from /repo as it is now, then runs the checks' binaries directly
#   (no rebuild between checks, so later edits to /repo's working tree do not leak into the sweep).
#   Evidence/replays go to ./target/sweep-out/, not to evidence/ (sweeps are not evidence).
cd "$(dirname "$0")"; ROOT="$(pwd)"
./check setup || exit 2
export VERIF_ROOT="$ROOT" VERIF_EVIDENCE_DIR="$ROOT/target/sweep-out/evidence" VERIF_REPLAY_DIR="$ROOT/target/sweep-out/replays"
mkdir -p "$VERIF_EVIDENCE_DIR" "$VERIF_REPLAY_DIR"
. "$ROOT/runs_table.sh"
mode="${3:-quick}"   # quick | thorough | <seconds> | x<k> (k times the quick run count, no wall-clock cap) | r<a>-<b> (runs a*N..b*N; dsim/osim: 0..b*N)
for s in $1; do
  for p in $2; do
    case "$p" in C20|C21) bin="$ROOT/target/osim/release/osim";; C18|C22|C23|C24) bin="$ROOT/target/dsim/release/dsim";; *) bin="$ROOT/target/small/release/wsim";; esac
    t0=$(date +%s)
    case "$mode" in
      quick|thorough) out=$(VERIF_SEED=$s ${4:+VERIF_START_INDEX=$4} "$bin" run $p $mode 2>&1); code=$? ;;
      r*) a=${mode#r}; b=${a#*-}; a=${a%-*}; n=$(quick_runs $p)
          case "$p" in C18|C2*) out=$(VERIF_SEED=$s VERIF_BUDGET_S=20000 VERIF_MAX_RUNS=$(( b * n )) "$bin" run $p quick 2>&1); code=$? ;;
            *) out=$(VERIF_SEED=$s VERIF_BUDGET_S=20000 VERIF_START_INDEX=$(( a * n )) VERIF_MAX_RUNS=$(( (b - a) * n )) "$bin" run $p quick 2>&1); code=$? ;; esac ;;
      x*) out=$(VERIF_SEED=$s VERIF_BUDGET_S=20000 VERIF_MAX_RUNS=$(( ${mode#x} * $(quick_runs $p) )) "$bin" run $p quick 2>&1); code=$? ;;
      *) out=$(VERIF_SEED=$s VERIF_BUDGET_S=$mode "$bin" run $p quick 2>&1); code=$? ;;
    esac
    echo "== seed=$s $p $mode exit=$code $(( $(date +%s) - t0 ))s $(echo "$out" | grep -E '^(wsim|dsim|osim): [0-9]' | head -1)"
    echo "$out" | grep -E "^finding|^  original|^  facts|^VIOLATION|harness-error|NONDET|too few" | cut -c1-600
  done
done
