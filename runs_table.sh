# quick-tier run counts per check (must agree with default_runs in sim/wsim/src/main.rs and q_runs in the dsim/osim drivers)
quick_runs() { case "$1" in
  C01) echo 1600;; C02) echo 600;; C03) echo 1400;; C04) echo 500;; C05) echo 1500;; C06) echo 550;; C07) echo 24;; C08) echo 40;; C09) echo 28;; C10) echo 160;;
  C11) echo 1150;; C12) echo 230;; C13) echo 110;; C15) echo 1250;; C16) echo 560;; C17) echo 2500;; C18) echo 3000;; C20) echo 8000;; C21) echo 2000;; C22) echo 3500;; C23) echo 3500;; C24) echo 3300;; esac; }
