#!/bin/bash
# eval_mutant.sh <patch.diff> <budget_s> <ID>...   apply a seeded change to /repo, run the checks, undo it
patch="$1"; budget="$2"; shift 2
cd /repo || exit 2
git diff --quiet || { echo "repo not clean"; exit 2; }
git apply "$patch" || git apply --3way "$patch" || { echo "patch does not apply"; exit 2; }
cd /verif
for id in "$@"; do
  out=$(VERIF_BUDGET_S=$budget ./check $id quick 2>&1); code=$?
  echo "== $id exit=$code $(echo "$out" | grep -E '^(wsim|dsim|osim): [0-9]' | head -1 | cut -c1-160)"
  echo "$out" | grep -E "^finding|^VIOLATION" | cut -c1-300 | head -6
done
git -C /repo checkout -- . ; git -C /repo status --short | head -3
