#!/bin/bash
# eval_mutant.sh <patch.diff> <tier|budget_s> <ID>...
#   applies a seeded change to /repo's working tree, runs the listed checks, undoes the change.
#   <tier|budget_s>: "quick"/"thorough" = the registered command as is (fixed run count);
#                    a number = as many runs as fit into that many seconds (sweep mode).
#   Evidence and replay files of these runs go to target/mutant-out/, never to evidence/ or replays/.
patch="$(readlink -f "$1")"; mode="$2"; shift 2
cd /repo || exit 2
git diff --quiet || { echo "repo not clean"; exit 2; }
git apply "$patch" || git apply --3way "$patch" || { echo "patch does not apply"; exit 2; }
# undo the change and rebuild, so that binaries run directly afterwards are those of the unchanged tree
trap 'git -C /repo checkout -- . ; git -C /repo status --short | head -3; /verif/check setup >/dev/null 2>&1' EXIT
cd /verif
out_dir=/verif/target/mutant-out/$(basename "$(dirname "$patch")")-$(basename "$patch" .diff)
mkdir -p "$out_dir/evidence" "$out_dir/replays"
export VERIF_EVIDENCE_DIR="$out_dir/evidence" VERIF_REPLAY_DIR="$out_dir/replays"
for id in "$@"; do
  case "$mode" in
    quick|thorough) out=$(./check $id $mode 2>&1); code=$? ;;
    *) out=$(VERIF_BUDGET_S=$mode ./check $id quick 2>&1); code=$? ;;
  esac
  echo "$out" > "$out_dir/$id.log"
  echo "== $id exit=$code $(echo "$out" | grep -E '^(wsim|dsim|osim): [0-9]' | head -1 | cut -c1-160)"
  echo "$out" | grep -E "^finding|^VIOLATION|^  original" | cut -c1-300 | head -8
done
