#!/usr/bin/env python3
# tools_exec.py <replay-or-plan.json> [io]  -- run a plan once, print returns (and io events)
import json,subprocess,sys
d=json.load(open(sys.argv[1]))
p=d.get('plan',d)
json.dump(p,open('/dev/shm/_exec_plan.json','w'))
out=subprocess.run(['/verif/target/small/release/wsim','exec','/dev/shm/_exec_plan.json'],capture_output=True,text=True).stdout
show_io=len(sys.argv)>2
for l in out.splitlines():
    if l.startswith('{'):
        e=json.loads(l)
        if e['t']=='ret':
            res=e['res']
            if 'entries' in res and len(res['entries'])>4: res['entries']=('n=%d'%len(res['entries']), res['entries'][:3])
            if 'calls' in res: res['calls']=len(res['calls'])
            print('ret op',e['op'],'th',e['th'],'step',e['step'],res)
        elif e['t']=='io':
            if show_io: print('   io',e.get('op'),'th',e['th'],e['io'])
        elif e['t'] not in ('inv','summary'):
            print(e)
    else: print(l)
