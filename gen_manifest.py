#!/usr/bin/env python3
"""Generates MANIFEST.json from the table below (kept in one place so it stays valid)."""
import json, subprocess
WSIM_NOTE = ("Trusted base: the simulator (sim/wsim: one-runner scheduler over real threads, virtual clock, I/O fault plane), "
  "the cfg-guarded hook layer in /repo/src/wal/verif (std-shaped wrappers; a missed acquisition would show as a watchdog/harness error, exit 2), "
  "the reference model in sim/wsim/src/oracle.rs, tmpfs semantics for completed syscalls. Seeded sampling, not a proof.")
DSIM_NOTE = ("Trusted base: the tokio shim (sim/shims/tokio: single-threaded seeded executor, virtual time, in-memory sockets), the octopii stub (sim/shims/octopii: consensus oracle restricted to behaviour Raft allows, simulated RPC; real rpc/message.rs), bincode = serde_json, the wiring of start_node reproduced in sim/dsim/src/world.rs, engine background threads parked. No node crashes. Seeded sampling, not a proof.")
dsim_checks = {
 "C18": ("exploration", "Three replicas of the real Metadata state machine behind the consensus stub; racing proposers on all nodes issue duplicate/stale/unknown-topic commands and damaged encodings under proposal failure, leader change, apply lag and snapshot catch-up; the statement's invariants are evaluated on every replica after every apply and replicas are compared at the end. The simulation contributes the command sequences a cluster produces; it does not enumerate the bounded space (that would be model checking).", "§6 C18", "deterministic simulation: replicated state machine under a consensus stub, invariants after every apply"),
 "C22": ("exploration", "1-3 nodes of the real data plane over the real engine, concurrent PUT/GET clients on arbitrary nodes, thresholds 1-4, monitor/lease timers on virtual time, consensus and RPC faults while the workload runs, then a fault-free drain; history oracle on executor step numbers (exactly-once, per-producer order, EMPTY only when drained); findings carry whether any write to the topic passed an irregular lease check.", "§6 C22, §16.3", "deterministic simulation: seeded task schedules and faults, history checked for exactly-once ordered delivery"),
 "C23": ("exploration", "Same runs as C22; every engine append is reported by the hook with the node label of the task performing it and checked at that instant against that node's applied metadata; guarded observation hooks give the provenance of the lease check that let the write through (legitimate cached lease refreshed by the request itself vs accepted without lease / lease kept by install / wrong snapshot / not refreshed by the request / no check).", "§6 C23, §15.3, §16.3", "deterministic simulation: write events checked against the writer's applied metadata"),
 "C24": ("exploration", "Byte streams of valid and malformed frames through the real listener/handle_connection over a simulated socket with seeded chunking and short reads; payloads up to the frame limit with multi-byte characters across power-of-two byte offsets; responses matched positionally against a reference framer; PUT/GET payload identity; a panicking connection task is a finding.", "§6 C24, §15.3", "deterministic simulation: seeded byte streams and chunking vs reference framer"),
}
OSIM_NOTE = ("Trusted base: type-only shims of openraft/futures/quinn (sim/shims), the simulator's tokio (C20 on the seeded executor, C21 driven by block_on), bincode = serde_json, a 10-line bridge between the two declarations of StateMachineTrait. The vendored engine copy under octopii/src/wal/wal has no I/O hooks: its I/O is intercepted at the libc entry points (pwrite64, fsync, fdatasync, ftruncate64, rename defined by the osim binary, real effect by raw system call), which gives crash points inside operations and torn positional writes; the other I/O fault is a full disk (RLIMIT_FSIZE); io_uring and mmap stores are outside this seam. node.rs cannot be compiled offline as a whole; its three peer-address items are cut out verbatim by build.rs. Seeded sampling, not a proof.")
osim_checks = {
 "C20": ("exploration", "Seeded metadata command sequences applied in batches as openraft entries through the real MemStateMachine adapter over the real Metadata; 1-3 snapshot builds per history race with the apply batches on the simulator's executor (the entry stream is not always ready); each snapshot is installed into a fresh adapter, which must equal a replica that applied exactly the entries the snapshot claims, and the sender after the remaining commands; state is read through the accessors, not through snapshot(); Metadata snapshot->restore round trips on the same instance.", "§6 C20, §15.3", "deterministic simulation: snapshot builds racing with apply batches, receiver vs replica of the claimed prefix"),
 "C21": ("exploration", "Seeded histories of log-store operations on the real WalLogStore/WriteAheadLog/vendored engine and of peer-address records through the real persistence functions of node.rs (cut out by build.rs), a disk-full fault (RLIMIT_FSIZE) around appends followed by retries, with 1-4 reopen events (fresh process each: clean drop, kill at an operation boundary, or a process crash before the k-th intercepted I/O call of its operations or of the reopen itself - positional write incl. torn prefix, fsync, truncate, rename; the harness binary defines these libc entry points); histories beyond the recovery reader's batch caps (2000 records / 10 MiB); a BTreeMap model of acknowledged operations is compared with the reopened store and address book, the operation in flight at a crash may be reflected or not.", "§6 C21, §15.3, §16.2", "deterministic simulation: restart histories with disk-full faults and process crashes at intercepted I/O calls vs model of acknowledged operations"),
}
checks = {
 "C01": ("exploration", "Seeded operation sequences on the real engine under the simulator, compared op by op with a reference log+cursor model (both read APIs, all budgets, sizes 0..multi-block, both backends, both consistency modes, both geometries). Tests sample a handful of sequences; this samples thousands per minute with boundary-biased sizes and budgets.", "§4 C01", "deterministic simulation: seeded op sequences vs reference model"),
 "C02": ("exploration", "C01 workload over 1-3 incarnations plus peeks and offset-addressed reads, each peek paired with its consuming twin and bracketed by snapshots of the reclamation bookkeeping and of the reader state (hook accessors). Two oracles: the reference model, and a differential one - the same history with every non-consuming call removed is executed too (fresh processes) and every remaining operation must return the same result, restarts and AtLeastOnce included.", "§4 C02, §15.3", "deterministic simulation: peek/consume twins, bookkeeping snapshots, twin run without the non-consuming calls"),
 "C03": ("exploration", "Batch reads with budgets from boundary sets (0,1,next+-1,two+-1,block,usize::MAX-k) at model-chosen cursor positions; the three inequalities of the statement are checked against the reference model.", "§4 C03", "deterministic simulation: boundary budgets vs reference model"),
 "C04": ("fault_enumeration", "Three profiles by seed: every rejection cause interleaved with successful appends; one injected I/O failure per run at sampled I/O events of appends (failed create/set_len/fsync/msync/dir-fsync, failed io_uring submission, failed or short completion, failed pwrite), in 60% of the variants followed by the client's retry of the batch, a prefix of it or its first entry, then the rest of the workload and a restart; concurrent readers polling during batches. A failed operation must leave the model untouched now and after restart; a run that hangs after the injected failure is a violation.", "§4 C04, §14.2, §15.3", "deterministic simulation: rejected operations, injected I/O failures at enumerated events, concurrent readers"),
 "C06": ("exploration", "2-5 incarnations (fresh processes) plus same-process reopen, wall clock moving forward or backward between runs, rejected operations and multi-block payloads interleaved; the model has no restart operation.", "§4 C06", "deterministic simulation: restart histories with simulated wall clock vs restart-free model"),
 "C05": ("exploration", "2-4 real client threads on shared topics, one runnable at a time, every lock/atomic/channel/I-O point a seeded scheduling decision (random walk, sticky, PCT); the physical log order comes from an independent pass (fresh process, cursor index removed); exactly-once, producer order, batch contiguity, per-read monotonicity and real-time order between reads (simulator step numbers) are checked on the history.", "§4 C05", "deterministic simulation: seeded thread schedules, history checked against physical log order"),
 "C07": ("fault_enumeration", "Producer workloads are numbered by a fault-free pass, then re-run with the process terminated before sampled/enumerated I/O events (plus torn mmap stores and arbitrary completed subsets of io_uring batches; with several client threads the crashing thread is first held back by a slow-thread fault in half of the variants, and rotation-race workloads hand out blocks of different topics back to back); optionally the recovered process keeps appending and ends without a clean close, and in 30% of those variants it is itself ended by a second crash at a seeded I/O event of its recovery or of its operations (double crash); a fresh process must recover every acknowledged entry in order, extras only from operations in flight.", "§4 C07, §14.2, §16.4", "deterministic simulation: crash at enumerated I/O events (single and double crash), recovery read-back"),
 "C08": ("fault_enumeration", "One batch in flight; crash before each of its I/O events, after sampled subsets of its io_uring writes, between and inside the sequential stores of the mmap path; recovered topic must contain all or none of the batch.", "§4 C08", "deterministic simulation: crash inside a batch, subset enumeration of io_uring completions"),
 "C09": ("fault_enumeration", "Appends and consuming reads (Strict and AtLeastOnce{1..8}), 1-2 working incarnations, optionally a post-crash working incarnation with producers and consumers, and rotation-race workloads (one producer-and-consumer thread per topic, slow-thread + torn-store faults); crash before every sampled I/O event incl. the three events of an index persist, in 30% of the post-crash variants followed by a second crash inside the recovering incarnation; the resume position is judged at every restart boundary against the consumer's acknowledgement log.", "§4 C09, §15.3, §16.4", "deterministic simulation: crash at enumerated I/O events (single and double crash), resume position vs ack log"),
 "C10": ("fault_enumeration", "SyncEach workloads recorded as a byte-accurate I/O trace; a model file system decides durability (O_SYNC, fsync/msync per file, directory fsync for namespace operations); sampled trace prefixes x {nothing, everything, half} of the not-yet-durable items are materialised and opened in a fresh process.", "§4 C10", "deterministic simulation: recorded I/O trace replayed into a power-loss model, materialised cuts"),
 "C11": ("fault_enumeration", "Engine-produced directories (up to six topics, so that the upper blocks of a file are in use) receive 1-8 seeded mutations: bit flips in length bytes / rkyv metadata / payload / index / marker file, header fields overwritten with boundary values (0, 1, block+-1, multiples of the block size, file size - block offset +-1, 2^32, 2^64-1) at aligned and unaligned offsets, truncation, zeroing, garbage, stray and tmp files, directories; a fresh process opens and reads with every API; no signal, panic, deadlock or non-termination, and every payload returned was appended to that topic.", "§4 C11, §15.3", "deterministic simulation: seeded stored-byte faults, fresh-process open and read-back"),
 "C12": ("exploration", "Scaled geometry so whole files fill and drain within a run; the reclaimer is a simulated thread ticking every simulated millisecond; at every remove_file event the simulator scans the file independently of the engine and every acknowledged entry found must already have been consumed; model no-skip rule for all reads, also after restarts.", "§4 C12", "deterministic simulation: scheduler-controlled reclaimer, independent file scan at remove events"),
 "C13": ("exploration", "2-3 live instances in one process (keys that sanitize differently incl. keys made of disallowed characters only and case-different keys, and/or different data directories; a third opened through WALRUS_DATA_DIR and the *_for_key constructors), reclaim-style streams interleaved by seed; oracle is differential against the same real code: each instance's projected history re-run alone must give identical results; deleted files must hold only consumed entries.", "§4 C13, §15.3", "deterministic simulation: multi-instance run vs solo runs of the same plan"),
 "C16": ("exploration", "The same seeded plan executed once per backend in separate processes under a priority schedule that gives both sides the same logical schedule (io_uring set-up failure injected in 12% of the incarnations, forcing the positional-write fallback); result sequences must be identical.", "§4 C16, §15.3", "deterministic simulation: differential execution fd vs mmap"),
 "C15": ("exploration", "Two profiles by seed. Sequential (4 of 5 runs): get_topic_entry_count after every operation of C01/C06-style histories. Concurrent (1 of 5): C05's multi-threaded workload under the seeded scheduler with the count of every topic asked at each quiescent point (after the prologue, after the client threads were joined, after each drain). Expected value computed literally from the history (entries of successful appends minus entries returned by consuming reads).", "§4 C15, §16", "deterministic simulation: counts vs history-derived value, sequentially after every operation and at the quiescent points of seeded thread schedules"),
 "C17": ("exploration", "append/mark_clean/mark_dirty/is_clean histories with drop+reopen at any delay; the marker persister thread is a simulated thread whose timing the scheduler decides.", "§4 C17", "deterministic simulation: scheduler-controlled persister thread, last-call-wins model"),
}
na = [
 ("C14", "pure function of the key string (sanitize + PathBuf::push): no schedule, clock, fault or interleaving enters; input fuzzing in simulator clothing is declined (DESIGN §7)"),
 ("C19", "the mechanism is the vendored openraft core plus octopii node/network glue; neither compiles offline here (tokio, futures and eight more crates are absent) and a stand-in would test the stand-in (DESIGN §7)"),
 ("C25", "pure string codec (wal_key/parse_wal_key): nothing for a simulator to schedule or fault (DESIGN §7)"),
]
pending = []
for p in pending:
    na.append((p, "not claimed yet: its simulation profile is still being built (see DESIGN.md §0); no check is registered"))
commits = subprocess.run(["git","-C","/repo","log","--format=%h %s","--grep=^verif hooks"],capture_output=True,text=True).stdout.strip().splitlines()
m = {
 "version": 1,
 "setup_cmd": "./check setup",
 "hooks": {
   "guard": "walrus_verif (hooks), walrus_verif_small (scaled geometry)",
   "enable": "RUSTFLAGS=\"--cfg walrus_verif [--cfg walrus_verif_small]\" cargo build --offline --release (done by ./check from /repo's working tree; harness crate sim/wsim depends on /repo by path)",
   "baseline_off_cmd": "cd /repo && cargo nextest run --workspace --no-fail-fast --tool-config-file pb:/w/lib/nextest.toml --profile pb --test-threads 8 --offline",
   "source_commits": commits,
   "add_only": True,
 },
 "engines": [
   {"name": "wsim", "path": "sim/wsim", "serves_properties": sorted(checks.keys()), "kind_free_text": "deterministic simulation of the real walrus-rust engine: one fresh OS process per incarnation, real threads released one at a time at intercepted synchronisation/I-O points, virtual clock, seeded scheduler (random/sticky/PCT/priority), I/O fault plane, reference-model oracles"},
 ],
 "checks": [],
 "not_applicable": [{"property_id": p, "reason": r} for p, r in sorted(na)],
 "notes": "Exit codes: 0 held (or only KNOWN-FINDING lines), 1 with VIOLATION lines, 2 harness error. VERIF_SEED selects the seed (default 20260921), VERIF_BUDGET_S the search time, VERIF_WORKERS the parallelism. Known findings: known_findings.json. Replay: ./check replay <file>.",
}
m["engines"].append({"name": "dsim", "path": "sim/dsim", "serves_properties": sorted(dsim_checks.keys()), "kind_free_text": "deterministic simulation of the distributed-walrus data plane: real controller/bucket/monitor/client/metadata sources included by path over the real engine; tokio replaced by a single-threaded seeded executor with virtual time and in-memory sockets; octopii replaced by a consensus oracle with simulated RPC"})
for pid in sorted(dsim_checks):
    cat, text, ref, tech = dsim_checks[pid]
    m["checks"].append({
      "property_id": pid,
      "quick_cmd": f"./check {pid} quick",
      "thorough_cmd": f"./check {pid} thorough",
      "evidence_file": f"/verif/evidence/{pid}.json",
      "replay_cmd_template": "./check replay {path}",
      "engine": "dsim",
      "level_claimed": {"category": cat, "text": text, "design_ref": ref},
      "level_note": DSIM_NOTE,
      "technique": tech,
    })
m["engines"].append({"name": "osim", "path": "sim/osim", "serves_properties": sorted(osim_checks.keys()), "kind_free_text": "the real octopii storage adapter, WAL wrapper and vendored engine copy plus the real Metadata state machine, compiled against type-only shims of openraft/futures/quinn and the simulator's tokio; one OS process per incarnation for restart histories"})
for pid in sorted(osim_checks):
    cat, text, ref, tech = osim_checks[pid]
    m["checks"].append({
      "property_id": pid,
      "quick_cmd": f"./check {pid} quick",
      "thorough_cmd": f"./check {pid} thorough",
      "evidence_file": f"/verif/evidence/{pid}.json",
      "replay_cmd_template": "./check replay {path}",
      "engine": "osim",
      "level_claimed": {"category": cat, "text": text, "design_ref": ref},
      "level_note": OSIM_NOTE,
      "technique": tech,
    })
for pid in sorted(checks):
    cat, text, ref, tech = checks[pid]
    m["checks"].append({
      "property_id": pid,
      "quick_cmd": f"./check {pid} quick",
      "thorough_cmd": f"./check {pid} thorough",
      "evidence_file": f"/verif/evidence/{pid}.json",
      "replay_cmd_template": "./check replay {path}",
      "engine": "wsim",
      "level_claimed": {"category": cat, "text": text, "design_ref": ref},
      "level_note": WSIM_NOTE,
      "technique": tech,
    })
m["checks"].sort(key=lambda c: c["property_id"])
json.dump(m, open("/verif/MANIFEST.json","w"), indent=1)
print("checks:", len(m["checks"]), "n/a:", len(m["not_applicable"]))
