#!/bin/bash
# usage: sweep.sh "<seeds>" "<ids>" <budget_s>   -- runs quick checks for several VERIF_SEED values, prints a summary
cd "$(dirname "$0")"
./check setup || exit 2
for s in $1; do
  for p in $2; do
    out=$(VERIF_SEED=$s VERIF_BUDGET_S=${3:-40} ./check $p quick 2>&1)
    code=$?
    echo "== seed=$s $p exit=$code $(echo "$out" | grep -E '^(wsim|dsim): [0-9]' | head -1)"
    echo "$out" | grep -E "^finding|^  original|^VIOLATION|harness-error|NONDET" | cut -c1-400
  done
done
