#!/usr/bin/env python3
import json,sys
for f in sys.argv[1:]:
    r=json.load(open(f))
    print(f, r['rule']); print('  ', r['detail'][:300]); print('  facts', r['facts'])
    p=r['plan']
    print('  geometry',p['geometry'],'topics',[t[:14] for t in p['topics']])
    for i,inc in enumerate(p['incarnations']):
        print('  inc',i,'backend',inc['backend'],'sched',inc['sched']['policy'],'faults',inc.get('faults'),'clock',inc['clock_start_ms'])
        for ph in inc['phases']:
            for ti,th in enumerate(ph['threads']):
                for o in th:
                    o=dict(o)
                    if 'lens' in o and len(o['lens'])>12: o['lens']=str(o['lens'][:12])+'...n=%d'%len(o['lens'])
                    print('    t%d'%ti,o)
